"""C17 -- devices, registers, layouts, noise models, configs, results round-trip; no shared state."""
from __future__ import annotations

import ast
from typing import Any, Iterator

from ..engine import Engine
from ..model import AnalysisError, ClassInfo, dotted, norm
from ..report import Report

EXPLANATION = (
    "TABLE agreement extracted on every run: dataclass fields of Channel/Rydberg/Raman/Microwave/DMM, RydbergEOM, Device/VirtualDevice <-> keys produced by the reflective _to_abstract_repr "
    "(all fields minus OPTIONAL_* when default, plus id/basis/version/...) <-> keys the deserializers read <-> properties/required of the JSON schemas; every OPTIONAL_* name is a field with a default; "
    "NoiseModel: __init__ parameters = param_vals keys = dataclass fields - noise_types, _NOISE_TYPE_PARAMS partitions the noise parameters, each parameter in exactly one validation class, "
    "schema properties = _to_abstract_repr keys, NoiseType enum = NoiseTypes literal, _DIFF_NOISE_PARAMS maps onto SimConfig fields, the /1e6 temperature conversion is paired with *1e6; "
    "Observables: names handled by _deserialize_observable = _base_tag of every serialisable Observable subclass = schema definitions, emitted keys are constructor parameters and schema properties; "
    "Results keys written = keys read = schema; SCHEMA: in every object schema with additionalProperties:false, required is a subset of properties (all 7 schema files). "
    "Register decoders: every returned path of _deserialize_register/_deserialize_register3d depends on name, x, y(, z) of the qubit entries. "
    "SWAP also covers FIELD-ARG: an argument naming field t of a serialisable dataclass is never bound to a parameter that is a different field of the same class. "
    "REFLECT: every private class-level attribute is read somewhere under exactly its name (attribute load or getattr constant), and every name read reflectively with a fallback is declared by some class. "
    "SHARED also rejects one mutable program object replicated under many keys / slots (dict.fromkeys(keys, Obj()), [Obj()] * n). SHARED: no method assigns a class attribute (cls.x / Type.x / type(self).x), no class-level mutable literal, no mutable default argument is written through. "
    "NOT decided: equality of decoded objects (runtime)."
    ' Round 4 (added): a decoder tests the presence of an optional key by membership, never by the truth value of the decoded value (booleans excepted by table); a field annotated tuple[...] of a pure dataclass receives a tuple in every decoder call; registers are written from the coordinates they hold (_coords/_coords_arr), not from the rounded/sorted copies.'
    " Round 5 (added): complex values are converted back by the Results decoder; atom_order is stringified; State's in-place check compares with the rebuilt state's own norm; WeightMap writes every coordinate (KNOWN: 2D only)."
    ' Round 6 (added after the fifth independent round of breaking changes): optional channel / DMM fields are popped only under a comparison with get_dataclass_defaults (siblings of the device rule); a complex value is written as its real part only under `imag == 0` exactly (no tolerance); the STORED net also reads `obj.attr = param` in alternative constructors (classmethods).'
    ' Round 7 (added after the sixth, smaller round of breaking changes): BaseDevice._to_abstract_repr writes each channel under the id it is registered with (key of self.channels / self.dmm_channels), never default_id(); _deserialize_device_object reads the `init` flag from the fields of the class it builds.'
)
ASSUMPTIONS = ["the serialisers are reflective (dataclasses.fields); the rule checks the declared fields, the optional tables and the schemas that this reflection relies on"]

SCH_DIR = "pulser-core/pulser/json/abstract_repr/schemas/"


def walk_schema(s: Any, path: str = "") -> Iterator[tuple[str, dict]]:
    if isinstance(s, dict):
        if isinstance(s.get("properties"), dict):
            yield path, s
        for k, v in s.items():
            yield from walk_schema(v, path + "/" + str(k))
    elif isinstance(s, list):
        for i, v in enumerate(s):
            yield from walk_schema(v, f"{path}/{i}")


def _fields(E: Engine, c: ClassInfo) -> dict[str, Any]:
    return {f.name: f for _k, f in E.P.dataclass_fields(c)}


def _const_tuple(E: Engine, modname: str, name: str) -> list:
    m = E.P.module(modname)
    if name not in m.assigns:
        raise AnalysisError(f"anchor: {modname}.{name} not found")
    v = E.P.fold_or_none(m, m.assigns[name])
    if v is None:
        raise AnalysisError(f"{modname}.{name} is not a constant table")
    return list(v)


def _basis_of(E: Engine, c: ClassInfo) -> str | None:
    for k in E.P.mro(c):
        for f in k.methods.get("basis", []):
            for n in ast.walk(f.node):
                if isinstance(n, ast.Return) and isinstance(n.value, ast.Constant):
                    return n.value.value
    return None


from .. import sym as _sym17


def _S(E, f, inline=True):
    from .symutil import S

    return S(E, f, inline)


def _unobj_(t):
    from .symutil import unobj

    return unobj(t)


def _subterms_(t):
    from .. import sym

    return sym.subterms(t)


def _show_(t):
    from .. import sym

    return sym.show(t)


def run(E: Engine, rep: Report, tier: str) -> dict:
    P = E.P
    # ------------------------------------------------------------ SCHEMA
    n_obj = 0
    for fn, sch in sorted(P.schemas.items()):
        for path, o in walk_schema(sch):
            n_obj += 1
            props = set(o["properties"])
            req = set(o.get("required", []))
            if o.get("additionalProperties") is False or req:
                rep.check(req <= props, "SCHEMA", f"{fn}|{path}|required⊆properties", f"{len(req)} required keys all declared",
                          f"required keys {sorted(req - props)} are not declared under properties" + (" while additionalProperties is false: no document can satisfy this object schema" if o.get("additionalProperties") is False else ""),
                          SCH_DIR + fn)
            # a key sitting next to 'properties' that looks like a property definition
            stray = [k for k, v in o.items() if k not in ("properties", "required", "type", "additionalProperties", "description", "anyOf", "allOf", "oneOf", "$ref", "title", "definitions", "items", "enum", "const", "minItems", "maxItems", "if", "then", "else", "$comment", "default", "examples", "not", "patternProperties", "minProperties", "maxProperties", "dependencies", "propertyNames", "$id", "$schema") and isinstance(v, dict) and ("type" in v or "$ref" in v) and path.count("/") >= 1 and not path == ""]
            if stray and o.get("additionalProperties") is False:
                rep.violation("SCHEMA", f"{fn}|{path}|stray-property-definition", f"keys {stray} are defined beside 'properties' instead of inside it", SCH_DIR + fn)
    rep.floor("SCHEMA", 40)

    # ----------------------------------------------------------- CHANNEL
    ch_mod = "pulser.channels.base_channel"
    opt_ch = _const_tuple(E, ch_mod, "OPTIONAL_ABSTR_CH_FIELDS")
    opt_dmm = _const_tuple(E, "pulser.channels.dmm", "OPTIONAL_ABSTR_DMM_FIELDS")
    opt_eom = _const_tuple(E, "pulser.channels.eom", "OPTIONAL_ABSTR_EOM_FIELDS")
    dev_sch = P.schemas["device-schema.json"]
    ch_objs = [(p, o) for p, o in walk_schema(dev_sch) if "basis" in o["properties"] and "id" in o["properties"]]
    classes = {
        "Rydberg": P.cls("pulser.channels.channels.Rydberg"),
        "Raman": P.cls("pulser.channels.channels.Raman"),
        "Microwave": P.cls("pulser.channels.channels.Microwave"),
        "DMM": P.cls("pulser.channels.dmm.DMM"),
    }
    for cname, c in classes.items():
        flds = _fields(E, c)
        basis = _basis_of(E, c)
        if basis is None:
            raise AnalysisError(f"anchor: basis of {cname} not found")
        opt = list(opt_ch) + (list(opt_dmm) if cname == "DMM" else [])
        for o in opt:
            f = flds.get(o)
            rep.check(f is not None and f.default is not None, "TABLE", f"{cname}|optional-field-has-default|{o}", "elidable field exists and has a default",
                      f"'{o}' is listed as optional in the abstract repr of {cname} but " + ("is not a field" if f is None else "has no default (the decoder cannot rebuild it when elided)"), E.where_mod(c.module.relpath, c.node))
        emitted = set(flds) | {"id", "basis"}
        always = emitted - set(opt)
        mine = [(p, o) for p, o in ch_objs if o["properties"]["basis"].get("const") == basis and (("bottom_detuning" in o["properties"]) == (cname == "DMM"))]
        rep.check(bool(mine), "TABLE", f"{cname}|has-schema-object", f"{len(mine)} schema objects", f"no channel object for basis '{basis}' in device-schema.json", SCH_DIR + "device-schema.json")
        for p, o in mine:
            props, req = set(o["properties"]), set(o.get("required", []))
            rep.check(emitted == props, "TABLE", f"{cname}|{p}|fields=schema-properties", f"{len(props)} keys", f"{cname} emits {sorted(emitted - props)} that the schema does not allow / schema has {sorted(props - emitted)} that {cname} never emits", SCH_DIR + "device-schema.json")
            rep.check(req == always, "TABLE", f"{cname}|{p}|always-emitted=schema-required", f"{len(req)} required", f"{cname}: always emitted {sorted(always - req)} not required / required {sorted(req - always)} may be elided (OPTIONAL tables: {opt})", SCH_DIR + "device-schema.json")
        # init fields without default must always be emitted (the decoder reads obj[name])
        for n, f in flds.items():
            if f.init and f.default is None and n != "eom_config":
                rep.check(n in always, "TABLE", f"{cname}|init-field-always-emitted|{n}", "mandatory constructor field is always emitted", f"{cname}.{n} has no default but may be elided", E.where_mod(c.module.relpath, c.node))
    # deserializer basis -> class table
    dc = E.fn("pulser.json.abstract_repr.deserializer._deserialize_channel")
    table: dict[str, set] = {}
    from .. import sym as _symc
    from .symutil import S as _Sc, branches as _brc, finite_maps as _fmc, is_ as _isc, unobj as _unc

    for l in _Sc(E, dc).logged("return"):
        v = _unc(l.value) if l.value is not None else None
        if v is None or v[0] != "call":
            continue
        # the class that is instantiated, per basis: a conditional chain over obj["basis"] or a lookup table
        for conds_, leaf_ in _brc(v[1]):
            for c_ in conds_:
                for x in _symc.conj_of(c_):
                    m_ = _isc(x, "obj['basis'] == Q_b")
                    if m_ is not None and m_["Q_b"][0] == "const" and _unc(leaf_)[0] == "name":
                        table.setdefault(m_["Q_b"][1], set()).add(_unc(leaf_)[1])
        for subj, tab in _fmc(v[1]):
            if _symc.contains(subj, _symc.Pattern("obj['basis']").term):
                for k_, val_ in tab.items():
                    for _c2, leaf2 in _brc(val_):
                        if _unc(leaf2)[0] == "name":
                            table.setdefault(k_, set()).add(_unc(leaf2)[1])
    if not table:
        raise AnalysisError("anchor: the basis -> channel class selection of _deserialize_channel was not found")
    for cname, c in classes.items():
        b = _basis_of(E, c)
        rep.check(cname in table.get(b, set()), "TABLE", f"deserializer|basis->{cname}", f"basis '{b}' decodes to {cname}", f"_deserialize_channel maps basis '{b}' to {sorted(table.get(b, set()))}, not to {cname}", E.where(dc))
    # EOM
    eom = P.cls("pulser.channels.eom.RydbergEOM")
    ef = _fields(E, eom)
    for o in opt_eom:
        f = ef.get(o)
        rep.check(f is not None and f.default is not None, "TABLE", f"RydbergEOM|optional-field-has-default|{o}", "elidable EOM field has a default", f"'{o}' in OPTIONAL_ABSTR_EOM_FIELDS is not a defaulted field of RydbergEOM", E.where_mod(eom.module.relpath, eom.node))
    eom_objs = [(p, o) for p, o in walk_schema(dev_sch) if "limiting_beam" in o["properties"]]
    for p, o in eom_objs:
        props, req = set(o["properties"]), set(o.get("required", []))
        rep.check(props == set(ef), "TABLE", f"RydbergEOM|{p}|fields=schema-properties", f"{len(props)} keys", f"RydbergEOM fields vs schema: {sorted(set(ef) ^ props)}", SCH_DIR + "device-schema.json")
        rep.check(req == set(ef) - set(opt_eom), "TABLE", f"RydbergEOM|{p}|always-emitted=schema-required", f"{len(req)} required", f"RydbergEOM required mismatch: {sorted(req ^ (set(ef) - set(opt_eom)))}", SCH_DIR + "device-schema.json")
    # keys read for the RydbergEOM construction (helpers of _deserialize_channel are seen through)
    from .. import sym as _sym
    from .symutil import S as _S

    read = set()
    mismatched = []
    for l in _S(E, dc).calls("RydbergEOM"):
        for k, v in l.value[3]:
            if k == "**":
                continue
            idxs = [x for x in _sym.subterms(v) if x[0] == "idx" and x[2][0] == "const" and isinstance(x[2][1], str)]
            prefixes = {x[1] for x in idxs}
            keys = {x[2][1] for x in idxs if x not in prefixes}  # data["k"], not the path obj["eom_config"] leading to data
            read |= keys
            if keys != {k}:
                mismatched.append((k, sorted(keys)))
            # a sequence-valued field keeps the serialised order: a comprehension that rebuilds it iterates the
            # serialised list itself (iterating the enum and filtering would return the members in enum order)
            for c_ in [x for x in _sym.subterms(v) if x[0] == "comp" and len(x[3]) == 1]:
                it_ = c_[3][0][0]
                while it_[0] == "obj":
                    it_ = it_[2]
                order_kept = it_[0] == "idx" and it_[2] == ("const", k)
                rep.check(order_kept, "TABLE", f"deserializer|RydbergEOM.{k}|order-of-serialised-list-kept", f"rebuilt by mapping over data['{k}']", f"RydbergEOM.{k} is rebuilt by iterating `{_sym.show(it_)[:60]}` instead of the serialised list data['{k}']: the decoded tuple comes out in another order than the original (the decoded device differs from the original)", E.where(dc, l.node))
    rep.check(not mismatched, "TABLE", "deserializer|RydbergEOM-key=field", "every RydbergEOM field is decoded from the key of the same name", f"RydbergEOM fields decoded from other keys: {mismatched}", E.where(dc))
    rep.check(read | set(opt_eom) == {n for n, f in ef.items() if f.init}, "TABLE", "deserializer|RydbergEOM-keys", f"explicit keys {sorted(read)} + optional table = init fields", f"_deserialize_channel reads {sorted(read)} (+{opt_eom}) but RydbergEOM init fields are {sorted(n for n, f in ef.items() if f.init)}", E.where(dc))

    # ------------------------------------------------------------ DEVICE
    dmod = "pulser.devices._device_datacls"
    opt_dev = _const_tuple(E, dmod, "OPTIONAL_IN_ABSTR_REPR")
    with_repr = _const_tuple(E, dmod, "PARAMS_WITH_ABSTR_REPR")
    for cname, virt in (("Device", False), ("VirtualDevice", True)):
        c = P.cls(f"{dmod}.{cname}")
        flds = _fields(E, c)
        for o in opt_dev:
            if o in flds:
                rep.check(flds[o].default is not None, "TABLE", f"{cname}|optional-field-has-default|{o}", "elidable device field has a default", f"'{o}' is optional in the abstract repr but {cname}.{o} has no default", E.where_mod(c.module.relpath, c.node))
        emitted = (set(flds) - {"short_description"} - set(with_repr)) | {"version", "pulser_version", "channels", "dmm_objects", "is_virtual"}
        always = emitted - set(opt_dev) - {"dmm_objects", "pulser_version"}
        mine = [(p, o) for p, o in walk_schema(dev_sch) if o["properties"].get("is_virtual", {}).get("const") is virt]
        rep.check(bool(mine), "TABLE", f"{cname}|has-schema-object", "schema object found", f"no Device object with is_virtual={virt} in the schema", SCH_DIR + "device-schema.json")
        for p, o in mine:
            props, req = set(o["properties"]) - {"$schema"}, set(o.get("required", []))
            rep.check(emitted - {"pulser_version"} <= props and props <= emitted, "TABLE", f"{cname}|{p}|fields=schema-properties", f"{len(props)} keys", f"{cname}: emitted but not in schema {sorted(emitted - props - {'pulser_version'})}; in schema but never emitted {sorted(props - emitted)}", SCH_DIR + "device-schema.json")
            rep.check(req <= always, "TABLE", f"{cname}|{p}|schema-required⊆always-emitted", f"{len(req)} required", f"{cname}: schema requires {sorted(req - always)} which may be elided", SCH_DIR + "device-schema.json")
            # mandatory constructor fields must be required by the schema (decoder reads obj[name])
            mand = {n for n, f in flds.items() if f.init and f.default is None and n not in with_repr}
            rep.check(mand <= req | {"name"} and mand <= always, "TABLE", f"{cname}|{p}|mandatory-fields-required", f"{sorted(mand)}", f"{cname}: mandatory fields {sorted(mand - req)} are not required by the schema", SCH_DIR + "device-schema.json")

    # ------------------------------------------------------------- NOISE
    _noise(E, rep)
    # -------------------------------------------------------- OBSERVABLES
    _observables(E, rep)
    # ------------------------------------------------------------ RESULTS
    _results(E, rep)
    rep.floor("TABLE", 80)
    # --------------------------------------------------------------- SWAP
    sw = _swapped_arguments(E, rep)
    rep.floor("SWAP", 40)
    # ----------------------------------------------------------- DEEPCOPY
    bc = E.fn("pulser.backend.config.BackendConfig.__init__")
    ok = False
    for n in ast.walk(bc.node):
        if isinstance(n, ast.Assign) and isinstance(n.targets[0], ast.Attribute) and n.targets[0].attr == "_backend_options":
            v = n.value
            ok = isinstance(v, ast.Call) and (dotted(v.func) or "") in ("copy.deepcopy", "deepcopy") and norm(v.args[0]) == "backend_options"
    rep.check(ok, "SHARED", "BackendConfig.__init__|options-deep-copied", "the stored options are a deep copy of the arguments (two configs built from the same mutable arguments do not share them)", "BackendConfig no longer deep-copies its options: configs built from the same mutable argument (array, list, another config's options) share and can change each other's state", E.where(bc))
    # ------------------------------------------------ register decoders: no key dropped on a path
    from .. import sym as _sym
    from .symutil import S as _S, branches as _branches

    want_keys = {"_deserialize_register": {"name", "x", "y"}, "_deserialize_register3d": {"name", "x", "y", "z"}}
    for fn_name, want in want_keys.items():
        f_ = E.fn("pulser.json.abstract_repr.deserializer." + fn_name)
        r_ = _S(E, f_).ret
        leaves_ = list(_branches(r_))
        if not leaves_:
            raise AnalysisError(f"anchor: {fn_name} has no returned value")
        for i_, (conds_, leaf_) in enumerate(leaves_):
            got = {t[2][1] for t in _sym.subterms(leaf_) if t[0] == "idx" and t[2][0] == "const" and isinstance(t[2][1], str) and t[1][0] == "elem"}
            kind_ = "with-layout" if any(x == ("name", "layout") for x in conds_) else "without-layout" if any(x == ("not", ("name", "layout")) for x in conds_) else f"path{i_}"
            rep.check(want <= got, "TABLE", f"{fn_name}|{kind_}|every-qubit-key-consumed", f"the returned register depends on {sorted(want)} of every qubit entry",
                      f"{fn_name} ({kind_}): the returned register does not depend on {sorted(want - got)} of the qubit entries (it is built from {sorted(got)} only): the decoded register loses that field (e.g. the qubit IDs fall back to q0, q1, ...)", E.where(f_))
    # a key the device serializer writes only conditionally is left out only when the decoder's fallback (the dataclass
    # default of the concrete class) is what was left out: the condition refers to the defaults table.  (`if dmm_list:`
    # alone drops an empty DMM tuple, which a VirtualDevice -- default (DMM(),) -- decodes to one DMM.)
    bta = E.fn("pulser.devices._device_datacls.BaseDevice._to_abstract_repr")
    n_cond = 0
    for l in _S(E, bta).logged("store"):
        t_ = l.target
        if t_ is None or t_[0] != "idx" or t_[2][0] != "const" or not isinstance(t_[2][1], str) or l.cond == ("const", True):
            continue
        if not any(x[0] == "call" and x[1] == ("name", "fields") for x in _subterms_(_unobj_(t_[1]))) and "params" not in _show_(t_[1])[:40]:
            continue
        n_cond += 1
        refers = any(x[0] == "call" and x[1] == ("name", "get_dataclass_defaults") for x in _subterms_(l.cond))
        rep.check(refers, "TABLE", f"BaseDevice._to_abstract_repr|{t_[2][1]}|elided-only-when-equal-to-default", "the condition for writing the key consults the dataclass defaults", f"BaseDevice._to_abstract_repr writes '{t_[2][1]}' only under `{_show_(l.cond)[:120]}`, which does not consult the class's own default: when the key is left out the decoder falls back to that default, so a value that differs from it (an empty tuple where the class defaults to (DMM(),)) does not round-trip", E.where(bta, l.node))
    if n_cond < 1:
        raise AnalysisError("anchor: the conditionally written key (dmm_objects) of BaseDevice._to_abstract_repr was not found")
    # the channel serializers agree with it (siblings): an optional channel / DMM field is dropped from the JSON only
    # when it equals the dataclass default the decoder falls back to -- a truthiness test also drops a legal 0
    # (DMM.total_bottom_detuning = 0 decodes to None, and a physical Device then refuses the "virtual" DMM)
    for fq_ in ("pulser.channels.base_channel.Channel._to_abstract_repr", "pulser.channels.dmm.DMM._to_abstract_repr"):
        fo = E.fn(fq_)
        pops = [l for l in _S(E, fo, inline=False).calls("pop") if l.value[2] and "OPTIONAL_ABSTR" in _show_(l.value[2][0])[:200]]
        if not pops:
            rep.excepted("TABLE", f"{fo.short}|optional-field-elided-only-when-equal-to-default", "no pop() of an OPTIONAL_ABSTR_* field recognised: not decided", E.where(fo))
        for l in pops:
            refers = any(x[0] == "call" and x[1] == ("name", "get_dataclass_defaults") for x in _subterms_(l.cond))
            rep.check(refers, "TABLE", f"{fo.short}|optional-field-elided-only-when-equal-to-default", "popped under `params[p] == defaults[p]`", f"{fo.short} leaves an optional field out under `{_show_(l.cond)[:120]}`, which does not consult the dataclass defaults: the decoder falls back to the default, so a value that is falsy but not the default (total_bottom_detuning = 0, default None) does not round-trip", E.where(fo, l.node))
    # a complex value is written as its real part alone only when the imaginary part is EXACTLY zero: a tolerance
    # (np.isclose, abs(imag) < eps) drops small imaginary parts, and the decoded object differs from the original
    enc = E.fn("pulser.json.abstract_repr.serializer.AbstractReprEncoder.default")
    n_re = 0
    for l in _S(E, enc, inline=False).logged("return"):
        v_ = _unobj_(l.value) if l.value is not None else None
        if v_ is None or v_[0] != "attr" or v_[2] != "real":
            continue
        for x in _sym17.conj_of(l.cond):
            if "imag" not in _show_(x)[:200]:
                continue
            n_re += 1
            im = ("attr", v_[1], "imag")
            exact = x == ("not", im) or (x[0] == "cmp" and x[1] == "Eq" and {x[2], x[3]} in ({im, ("const", 0)}, {im, ("const", 0.0)}))
            rep.check(exact, "TABLE", "AbstractReprEncoder.default|complex-written-as-real-only-when-imag-is-exactly-0", "`o.imag == 0`", f"a complex value is written as its real part under `{_show_(x)[:100]}`: a tolerance drops imaginary parts that are small but not zero (4e-9j in an effective noise operator or a state amplitude), so the decoded object is not equal to the original", E.where(enc, l.node))
    if n_re == 0:
        rep.excepted("TABLE", "AbstractReprEncoder.default|complex-written-as-real-only-when-imag-is-exactly-0", "no `return o.real` under a test of the imaginary part recognised: not decided", E.where(enc))
    # every channel / DMM is written under the ID it is registered with in THIS device (the key of self.channels /
    # self.dmm_channels, i.e. channel_ids), not under an ID recomputed from the channel (default_id()): a device built
    # with custom channel_ids otherwise decodes to the default IDs
    n_ids = 0
    for l in _S(E, bta, inline=False).calls("_to_abstract_repr"):
        if not l.value[2] or not l.loops:
            continue
        n_ids += 1
        id_ = l.value[2][0]
        txt_ = _show_(id_)[:300]
        rep.check(("channels" in txt_ or "channel_ids" in txt_) and "default_id" not in txt_, "TABLE", "BaseDevice._to_abstract_repr|channel-written-under-its-registered-id", "id = key of self.channels / self.dmm_channels",
                  f"BaseDevice._to_abstract_repr writes a channel under the id `{txt_[:80]}`: the id a channel has in a device is the one it is registered with (channel_ids), which need not be its default_id() -- a device with custom channel ids decodes to ('rydberg_global', ...) instead of ('ryd_glob', ...)", E.where(bta, l.node))
    if n_ids == 0:
        rep.excepted("TABLE", "BaseDevice._to_abstract_repr|channel-written-under-its-registered-id", "no per-channel _to_abstract_repr(<id>) call recognised: not decided", E.where(bta))
    # the decoder passes a JSON value to the constructor of the class it BUILDS: whether a field is a constructor
    # argument (`init`) is read from that class's own fields (VirtualDevice re-declares reusable_channels as an init
    # field; BaseDevice has it init=False)
    ddo = E.fn("pulser.json.abstract_repr.deserializer._deserialize_device_object")
    sts = [l for l in _S(E, ddo, inline=False).logged("store") if l.loops and "fields(" in _show_(l.loops[-1])[:200]]
    if not sts:
        raise AnalysisError("anchor: _deserialize_device_object no longer fills the parameters in a loop over the dataclass fields")
    for l in sts[-1:]:
        own_init = any(x[0] == "attr" and x[2] == "init" and x[1][0] == "elem" and x[1][1] == l.loops[-1] for x in _sym17.conj_of(l.cond))
        cls_ok = not any(t == ("name", "BaseDevice") for t in _subterms_(l.loops[-1]))
        rep.check(own_init and cls_ok, "TABLE", "_deserialize_device_object|init-flag-of-the-built-class", "`param.init` of dataclasses.fields(<the class that is built>)", f"the decoder decides which JSON keys are constructor arguments under `{_show_(l.cond)[:140]}` (fields iterated: `{_show_(l.loops[-1])[:80]}`), not by the `init` flag of the built class's own fields: VirtualDevice.reusable_channels is an init field although BaseDevice declares it init=False, so VirtualDevice(reusable_channels=False) decodes with the default True", E.where(ddo, l.node))
    # a register is written with the coordinates it holds (`_coords` / `_coords_arr`), as BaseRegister._to_dict and
    # __eq__ read them -- not with the rounded / sorted copies kept for hashing (a 6-decimal rounding moves an atom and
    # can make the decoded register unequal to the original)
    n_regs = 0
    for cq_ in ("pulser.register.register.Register", "pulser.register.register3d.Register3D"):
        for f_ in E.cls(cq_).methods.get("_to_abstract_repr", []):
            r_ = _S(E, f_).ret
            if r_ is None:
                continue
            n_regs += 1
            used = {t[2] for t in _subterms_(r_) if t[0] == "attr" and t[1] == ("name", "self") and "coords" in t[2]}
            derived = used - {"_coords", "_coords_arr"}
            rep.check(bool(used) and not derived, "TABLE", f"{cq_.split('.')[-1]}._to_abstract_repr|coordinates-as-held", "written from self._coords / self._coords_arr",
                      f"{cq_.split('.')[-1]}._to_abstract_repr writes the coordinates from {sorted(used)}: {sorted(derived) or 'no coordinate attribute'} is a rounded / re-ordered copy kept for hashing, so the decoded register differs from the original (positions moved by up to 5e-7, or listed in another order)", E.where(f_))
    if n_regs < 2:
        raise AnalysisError("anchor: Register._to_abstract_repr / Register3D._to_abstract_repr not found")
    # a decoder hands a field annotated `tuple[...]` a tuple: JSON arrays decode to lists, and a list where the class
    # declares a tuple makes the decoded (frozen / hashable) object unequal to the original and unhashable
    def _field_annotation(c_, name_):
        for k_ in [c_] + E.P.mro(c_):
            for st_ in k_.node.body:
                if isinstance(st_, ast.AnnAssign) and isinstance(st_.target, ast.Name) and st_.target.id == name_:
                    return ast.unparse(st_.annotation)
        return None

    n_tup = 0
    for f_ in E.P.all_functions():
        is_decoder = f_.module.name == "pulser.json.abstract_repr.deserializer" or f_.name in ("_from_abstract_repr", "from_abstract_repr")
        if not is_decoder or f_.kind == "overload":
            continue
        for l in _S(E, f_, inline=False).log:
            if l.kind != "call" or not l.value[3]:
                continue
            fn_t = l.value[1]
            c_ = f_.cls if fn_t == ("name", "cls") else next((k_ for k_ in E.P.classes.values() if fn_t == ("name", k_.name) or (fn_t[0] == "attr" and fn_t[2] == k_.name and k_.name[0].isupper())), None) if fn_t[0] in ("name", "attr") else None
            if c_ is None or any("__init__" in k2.methods for k2 in [c_] + E.P.mro(c_)):
                continue  # (a hand-written __init__ converts its arguments itself)
            for k_, v_ in l.value[3]:
                ann = _field_annotation(c_, k_) if k_ != "**" else None
                if not ann or ann.split("[")[0].split(".")[-1] not in ("tuple", "Tuple"):
                    continue
                v_ = _unobj_(v_)
                raw = v_[0] == "idx" or (v_[0] == "call" and v_[1][0] == "attr" and v_[1][2] == "get") or v_[0] in ("list", "comp") and (v_[0] == "list" or v_[1] == "list")
                n_tup += 1
                rep.check(not raw, "TABLE", f"{f_.short}|{c_.name}.{k_}|decoded-as-tuple", f"{c_.name}.{k_}: {ann} receives a tuple", f"{f_.short} builds {c_.name}({k_}=`{_show_(v_)[:60]}`): the field is declared `{ann}` but the decoded JSON array (a list) is passed as it is, so the decoded object differs from the original in that field (== fails on a dataclass, and the object is unhashable)", E.where(f_, l.node))
    if n_tup < 1:
        raise AnalysisError("anchor: no decoder call passing a tuple-annotated field was found (expected Results._from_abstract_repr: atom_order)")
    # weight maps (detuning maps) exist in 2D and 3D like layouts: their abstract representation writes every coordinate
    # of a trap (RegisterLayout writes the coordinate rows whole); unpacking `(x, y)` fails on a 3D map
    wm_f = E.method("pulser.register.weight_maps.WeightMap", "_to_abstract_repr")
    src_wm = ast.unparse(wm_f.node)
    two_d_only = any(isinstance(n_, (ast.Tuple,)) and isinstance(n_.ctx, ast.Store) and [getattr(e_, "id", None) for e_ in n_.elts] == ["x", "y"] for n_ in ast.walk(wm_f.node))
    rep.check(not two_d_only, "TABLE", "WeightMap._to_abstract_repr|all-coordinates-written", "no `(x, y)` unpacking of a trap's coordinates",
              "WeightMap._to_abstract_repr unpacks every trap as (x, y): a detuning map defined on a 3D register / layout (supported by define_detuning_map, sampled and legacy-encoded fine) makes Sequence.to_abstract_repr() raise 'too many values to unpack'", E.where(wm_f))
    # ---- round 5 (independent audit) ----
    # (a) the encoder writes a complex number as {"real":, "imag":}; every decoder converts it back (_convert_complex) --
    #     Results included
    rf = E.method("pulser.backend.results.Results", "_from_abstract_repr")
    st_res = [l for l in _S(E, rf, inline=False).logged("store") if l.target is not None and l.target[0] == "idx" and _show_(l.target[1]).endswith("._results")]
    if not st_res:
        raise AnalysisError("anchor: Results._from_abstract_repr no longer fills _results")
    for l in st_res:
        rep.check(any(t[0] == "call" and t[1] == ("name", "_convert_complex") for t in _subterms_(l.value)), "TABLE", "Results._from_abstract_repr|complex-values-converted-back", "decoded values pass through _convert_complex", "Results._from_abstract_repr stores the raw JSON value: a complex result (an expectation value of a non-Hermitian operator, a complex matrix) is serialised as {'real': .., 'imag': ..} and comes back as a dict", E.where(rf, l.node))
    # (b) qubit IDs are serialised as strings everywhere (register, sequence, results): the results schema requires strings
    rt = E.method("pulser.backend.results.Results", "_to_abstract_repr")
    ao = [l for l in _S(E, rt, inline=False).log if l.value is not None and any(t[0] == "dict" or t[0] == "call" for t in [l.value])]
    r_rt = _S(E, rt).ret
    ao_val = None
    for t in _subterms_(r_rt) if r_rt is not None else ():
        if t[0] == "dict":
            for k_, v_ in zip(t[1::2], t[2::2]) if len(t) % 2 == 1 else ():
                if k_ == ("const", "atom_order"):
                    ao_val = v_
    if ao_val is None:
        for l in _S(E, rt).log:
            for v_ in (l.value,):
                if v_ is not None and "atom_order" in _show_(v_)[:4000] and ao_val is None:
                    ao_val = v_
    rep.check(ao_val is not None and any(t[0] == "call" and t[1] == ("name", "stringify_qubit_ids") for t in _subterms_(ao_val)), "TABLE", "Results._to_abstract_repr|atom_order-stringified", "atom_order goes through stringify_qubit_ids", "Results._to_abstract_repr writes atom_order as it is: with integer qubit IDs (the default of Register.square) the document fails the results schema ('3 is not of type string')", E.where(rt))
    # (c) the in-place-modification check of State._to_abstract_repr compares with the rebuilt state's own norm, not with
    #     the constant 1.0 (states built from non-normalised amplitudes are legal)
    stf = E.method("pulser.backend.state.State", "_to_abstract_repr")
    chk = [l for l in _S(E, stf, inline=False).logged("raise") if "overlap" in _show_(l.cond)[:2000]]
    if not chk:
        raise AnalysisError("anchor: State._to_abstract_repr no longer checks the overlap with the rebuilt state")
    for l in chk:
        n_ov = sum(1 for t in _subterms_(l.cond) if t[0] == "call" and t[1][0] == "attr" and t[1][2] == "overlap")
        rep.check(n_ov >= 2, "TABLE", "State._to_abstract_repr|reference-is-the-rebuilt-state's-norm", "|<self|rebuilt> - <rebuilt|rebuilt>| is tested", "State._to_abstract_repr compares the overlap with the rebuilt state with the constant 1.0: a state created from non-normalised amplitudes (the docstring example of from_state_amplitudes) cannot be serialised ('was modified in place after its creation')", E.where(stf, l.node))
    # decoder side of the same clause: whether an optional key is *present* is asked with `key in obj`.  Taking the
    # truthiness of the stored value instead (`if obj.get(key):`) treats an empty list / 0 / False as absent and falls
    # back to the class default.  On the tree the only JSON values used as conditions are booleans (table below).
    TRUTHY_OK = {"is_virtual": "a JSON boolean: its truth value is its meaning"}
    n_truthy = 0
    for f_ in E.P.all_functions():
        if f_.module.name != "pulser.json.abstract_repr.deserializer" or f_.kind == "overload":
            continue
        seen_l = set()
        for l in _S(E, f_, inline=False).log:
            for x in _sym.conj_of(l.cond):
                y = x[1] if x[0] == "not" else x
                key_ = None
                if y[0] == "call" and y[1][0] == "attr" and y[1][2] == "get" and y[2] and y[2][0][0] == "const" and isinstance(y[2][0][1], str):
                    key_ = y[2][0][1]
                elif y[0] == "idx" and y[2][0] == "const" and isinstance(y[2][1], str):
                    key_ = y[2][1]
                if key_ is None or (f_.short, key_) in seen_l:
                    continue
                seen_l.add((f_.short, key_))
                n_truthy += 1
                if key_ in TRUTHY_OK:
                    rep.ok("TABLE", f"{f_.short}|{key_}|presence-tested-by-membership", TRUTHY_OK[key_], E.where(f_, l.node))
                else:
                    rep.violation("TABLE", f"{f_.short}|{key_}|presence-tested-by-membership", f"{f_.short} decides on the truth value of the decoded `{_show_(y)[:60]}` (path condition of `{_show_(l.value)[:60] if l.value is not None else l.kind}`): an empty list / 0 / False stored under '{key_}' is treated like a missing key, so the decoder falls back to the class default and the object does not round-trip (e.g. a VirtualDevice with dmm_objects=() comes back with one DMM)", E.where(f_, l.node))
    if n_truthy < 1:
        raise AnalysisError("anchor: no boolean JSON condition (is_virtual) found in the deserializer module")
    # boolean options are stored as Python bools: EmulationConfig.__init__ hands every parameter annotated `bool`
    # to BackendConfig wrapped in bool(...) (a numpy.bool_ or 0/1 is truthy-equivalent in memory but is not a JSON /
    # schema boolean, so the configuration could no longer be serialised)
    ec = E.fn("pulser.backend.config.EmulationConfig.__init__")
    bool_params = {x.arg for x in ec.node.args.args + ec.node.args.kwonlyargs if x.annotation is not None and ast.unparse(x.annotation) == "bool"}
    sup = [n for n in ast.walk(ec.node) if isinstance(n, ast.Call) and isinstance(n.func, ast.Attribute) and n.func.attr == "__init__" and isinstance(n.func.value, ast.Call) and (dotted(n.func.value.func) or "") == "super"]
    if not sup or not bool_params:
        raise AnalysisError("anchor: EmulationConfig.__init__ -> super().__init__ with boolean parameters not found")
    for kw in sup[0].keywords:
        if kw.arg in bool_params:
            ok_b = isinstance(kw.value, ast.Call) and (dotted(kw.value.func) or "") == "bool" and len(kw.value.args) == 1 and isinstance(kw.value.args[0], ast.Name) and kw.value.args[0].id == kw.arg
            rep.check(ok_b, "TABLE", f"EmulationConfig.__init__|{kw.arg}|stored-as-bool", f"{kw.arg}=bool({kw.arg})", f"EmulationConfig stores `{kw.arg}` as given (`{norm(kw.value)}`): a truthy non-bool (numpy.bool_, 1) is accepted but is not a JSON/schema boolean, so to_abstract_repr() fails or produces a schema-invalid document", E.where(ec, kw.value))
    # ----------------------------------- operator representation kept for serialisation: one entry per QuditOp
    fo = E.fn("pulser_simulation.qutip_op.QutipOperator._from_operator_repr")
    n_app = 0
    for l in _S(E, fo).log:
        if l.kind != "call" or l.target is None or l.target[0] != "attr" or l.target[2] != "append" or not l.value[2] or not l.loops:
            continue
        v = _unobj_(l.value[2][0])
        if v[0] != "tuple" or len(v) != 3:
            continue
        inds = _unobj_(v[2])
        if not (inds[0] == "call" and inds[1] in (("name", "set"), ("name", "tuple"), ("name", "list"), ("name", "frozenset")) and len(inds[2]) == 1):
            continue
        n_app += 1
        src = _unobj_(inds[2][0])
        per_op = src[0] == "item" and src[1] == ("elem", l.loops[-1], len(l.loops) - 1)
        rep.check(per_op, "TABLE", "QutipOperator._from_operator_repr|one-kept-entry-per-QuditOp", "the (QuditOp, indices) pair is recorded once per element of the tensor operation", f"the pair kept for serialisation is appended inside a loop over `{_show_(l.loops[-1])[:60]}`, not once per (QuditOp, indices) element: an operator acting on several qudits is written out several times and cannot be decoded (indices already used)", E.where(fo, l.node))
    if n_app < 1:
        raise AnalysisError("anchor: the (QuditOp, indices) record of QutipOperator._from_operator_repr was not found")
    # ------------------------------------------------------------ REFLECT
    # class-level private attributes are hooks a base class reads (often reflectively, with a default that hides a
    # misspelt name: getattr(cls, "_operator_type", OperatorRepr)); each one must be read under exactly that name
    loads: set = set()
    reflective: dict[str, list] = {}
    declared: set = set()
    for m in P.modules.values():
        for n in ast.walk(m.tree):
            if isinstance(n, ast.Attribute):
                (loads if isinstance(n.ctx, ast.Load) else declared).add(n.attr)
            if isinstance(n, ast.Call) and isinstance(n.func, ast.Name) and n.func.id in ("getattr", "hasattr") and len(n.args) >= 2 and isinstance(n.args[1], ast.Constant) and isinstance(n.args[1].value, str):
                reflective.setdefault(n.args[1].value, []).append((m, n))
    for c in P.classes.values():
        declared |= set(c.methods) | set(c.fields)
        for st_ in c.node.body:
            names = []
            if isinstance(st_, ast.Assign):
                names = [t.id for t in st_.targets if isinstance(t, ast.Name)]
            elif isinstance(st_, ast.AnnAssign) and isinstance(st_.target, ast.Name):
                names = [st_.target.id]
                declared.add(st_.target.id)
                if st_.value is None:
                    names = []
            declared |= set(names)
            for nm_ in names:
                if nm_.startswith("_") and not nm_.startswith("__"):
                    rep.check(nm_ in loads or nm_ in reflective, "REFLECT", f"{c.name}.{nm_}|class-hook-is-read", "the class-level attribute is read somewhere under this name",
                              f"{c.qualname} sets the class attribute `{nm_}`, but nothing reads an attribute of that name (neither `.{nm_}` nor getattr(..., '{nm_}')): the hook it was meant to fill was renamed, and the reader's default silently applies", f"{c.module.relpath}:{st_.lineno} ({c.name})")
    for nm_, sites in sorted(reflective.items()):
        for m, n in sites:
            if len(n.args) == 3 or n.func.id == "hasattr":
                rep.check(nm_ in declared, "REFLECT", f"{m.name.split('.')[-1]}|getattr|{nm_}|declared", "the reflectively read name is declared by some class",
                          f"getattr/hasattr(..., '{nm_}') with a fallback, but no class declares `{nm_}`: the fallback always applies", f"{m.relpath}:{n.lineno}")
    rep.floor("REFLECT", 14)
    # ------------------------------------------------------------- SHARED
    st = _shared(E, rep)
    rep.floor("SHARED", 10)
    return {"schema_objects": n_obj, "shared": st, "swap": sw}


def _noise(E: Engine, rep: Report) -> None:
    P = E.P
    nm_mod = P.module("pulser.noise_model")
    nm = P.cls("pulser.noise_model.NoiseModel")
    flds = list(_fields(E, nm))
    init = P.lookup_method(nm, "__init__")[0]
    iparams = init.params[1:]
    where = E.where(init)
    rep.check(set(iparams) == set(flds) - {"noise_types"}, "TABLE", "NoiseModel|init-params=fields", f"{len(iparams)} parameters", f"NoiseModel.__init__ parameters vs dataclass fields differ: {sorted(set(iparams) ^ (set(flds) - {'noise_types'}))}", where)
    pv = None
    for n in ast.walk(init.node):
        if isinstance(n, ast.Assign) and isinstance(n.targets[0], ast.Name) and n.targets[0].id == "param_vals" and isinstance(n.value, ast.Call):
            pv = {k.arg: k.value for k in n.value.keywords}
    if pv is None:
        raise AnalysisError("anchor: NoiseModel.__init__ param_vals not found")
    rep.check(set(pv) == set(iparams), "TABLE", "NoiseModel|param_vals=init-params", "every constructor parameter is stored", f"param_vals keys vs parameters: {sorted(set(pv) ^ set(iparams))} (a parameter that is not stored is silently dropped)", where)
    for k, v in sorted(pv.items()):
        names = {x.id for x in ast.walk(v) if isinstance(x, ast.Name)}
        rep.check(k in names, "TABLE", f"NoiseModel|param_vals|{k}", f"param_vals[{k}] is built from the parameter {k}", f"param_vals['{k}'] = {norm(v)} does not use the parameter '{k}' (two parameters swapped?)", where)
    ntp = P.fold(nm_mod, nm_mod.assigns["_NOISE_TYPE_PARAMS"])
    ntypes = set(P.fold(nm_mod, nm_mod.assigns["NoiseTypes"]))
    rep.check(set(ntp) == ntypes, "TABLE", "NoiseModel|_NOISE_TYPE_PARAMS-keys=NoiseTypes", f"{sorted(ntypes)}", f"noise types without parameters / unknown types: {sorted(set(ntp) ^ ntypes)}", E.where_mod(nm_mod.relpath, nm_mod.assigns["_NOISE_TYPE_PARAMS"]))
    allp = [p for ps in ntp.values() for p in ps]
    rep.check(len(allp) == len(set(allp)), "TABLE", "NoiseModel|_NOISE_TYPE_PARAMS-disjoint", "each parameter activates exactly one noise type", f"parameters listed under several noise types: {sorted({p for p in allp if allp.count(p) > 1})}", E.where_mod(nm_mod.relpath, nm_mod.assigns["_NOISE_TYPE_PARAMS"]))
    rep.check(set(allp) == set(flds) - {"noise_types", "runs", "samples_per_run"}, "TABLE", "NoiseModel|_NOISE_TYPE_PARAMS-cover-fields", "every noise parameter belongs to a noise type", f"fields without a noise type / unknown parameters: {sorted(set(allp) ^ (set(flds) - {'noise_types', 'runs', 'samples_per_run'}))}", E.where_mod(nm_mod.relpath, nm_mod.assigns["_NOISE_TYPE_PARAMS"]))
    groups = {g: set(P.fold(nm_mod, nm_mod.assigns[g])) for g in ("_POSITIVE", "_STRICT_POSITIVE", "_PROBABILITY_LIKE", "_BOOLEAN")}
    for p in sorted(set(flds) - {"noise_types", "eff_noise_rates", "eff_noise_opers"}):
        inn = [g for g, s in groups.items() if p in s]
        rep.check(len(inn) == 1, "TABLE", f"NoiseModel|validation-class|{p}", f"{p} validated as {inn}", f"parameter '{p}' is in {len(inn)} validation classes {inn} (must be exactly one)", E.where_mod(nm_mod.relpath, nm_mod.assigns["_POSITIVE"]))
    tar = P.lookup_method(nm, "_to_abstract_repr")[0]
    popped = set()
    added = set()
    for n in ast.walk(tar.node):
        if isinstance(n, ast.Call) and isinstance(n.func, ast.Attribute) and n.func.attr == "pop" and n.args and isinstance(n.args[0], ast.Constant):
            popped.add(n.args[0].value)
        if isinstance(n, ast.Subscript) and isinstance(n.ctx, ast.Store) and isinstance(n.slice, ast.Constant):
            added.add(n.slice.value)
    keys = (set(flds) - popped) | added
    sch = P.schemas["noise-schema.json"]["definitions"]
    props, req = set(sch["NoiseModel"]["properties"]), set(sch["NoiseModel"].get("required", []))
    rep.check(keys == props - {"pulser_version"}, "TABLE", "NoiseModel|emitted-keys=schema-properties", f"{len(keys)} keys", f"NoiseModel emits {sorted(keys - props)} not in schema / schema has {sorted(props - keys - {'pulser_version'})} never emitted", SCH_DIR + "noise-schema.json")
    rep.check(req == keys, "TABLE", "NoiseModel|schema-required=emitted", "all emitted keys required", f"required mismatch {sorted(req ^ keys)}", SCH_DIR + "noise-schema.json")
    rep.check(set(sch["NoiseType"]["enum"]) == ntypes, "TABLE", "NoiseModel|schema-NoiseType-enum", "schema enum = NoiseTypes literal", f"NoiseType enum vs NoiseTypes: {sorted(set(sch['NoiseType']['enum']) ^ ntypes)}", SCH_DIR + "noise-schema.json")
    # deserializer: keys it pops/reads exist
    dn = E.fn("pulser.json.abstract_repr.deserializer._deserialize_noise_model")
    rd = set()
    for n in ast.walk(dn.node):
        if isinstance(n, ast.Call) and isinstance(n.func, ast.Attribute) and n.func.attr == "pop" and n.args and isinstance(n.args[0], ast.Constant):
            rd.add(n.args[0].value)
        if isinstance(n, ast.Subscript) and isinstance(n.value, ast.Name) and n.value.id == "noise_model_obj" and isinstance(n.slice, ast.Constant):
            rd.add(n.slice.value)
    rep.check(rd <= keys, "TABLE", "NoiseModel|deserializer-keys⊆emitted", f"{sorted(rd)}", f"_deserialize_noise_model reads {sorted(rd - keys)} which NoiseModel never emits", E.where(dn))
    # SimConfig mapping
    sc_mod = P.module("pulser_simulation.simconfig")
    sc = P.cls("pulser_simulation.simconfig.SimConfig")
    sf = set(_fields(E, sc)) | {n for n, fs in sc.methods.items() if any(f.kind == "property" for f in fs)}
    diff = P.fold(sc_mod, sc_mod.assigns["_DIFF_NOISE_PARAMS"])
    for p in sorted(set(flds)):
        tgt = diff.get(p, p)
        rep.check(tgt in sf, "TABLE", f"SimConfig|maps|{p}", f"NoiseModel.{p} -> SimConfig.{tgt}", f"NoiseModel.{p} maps to SimConfig.{tgt}, which does not exist", E.where_mod(sc_mod.relpath, sc_mod.assigns["_DIFF_NOISE_PARAMS"]))
    rep.check(len(set(diff.values())) == len(diff), "TABLE", "SimConfig|_DIFF_NOISE_PARAMS-injective", "distinct targets", "two noise parameters map onto the same SimConfig field", E.where_mod(sc_mod.relpath, sc_mod.assigns["_DIFF_NOISE_PARAMS"]))
    ld = P.fold(nm_mod, nm_mod.assigns["_LEGACY_DEFAULTS"])
    rep.check(set(ld) <= set(flds), "TABLE", "NoiseModel|_LEGACY_DEFAULTS⊆fields", "legacy defaults name existing parameters", f"unknown parameters {sorted(set(ld) - set(flds))}", E.where_mod(nm_mod.relpath, nm_mod.assigns["_LEGACY_DEFAULTS"]))
    # PAIR: /1e6 in __post_init__ with *1e6 in to_noise_model
    pi = P.lookup_method(sc, "__post_init__")[0]
    tn = P.lookup_method(sc, "to_noise_model")[0]
    # (decided on the normal form: literals and private module constants fold to the same number, `x /= c` is `x * 1/c`)
    def _temp_factors(fn_, want_div: bool) -> set:
        from .. import sym as _sym

        out = set()
        for l in _S(E, fn_).log:
            for v in (l.value,):
                if v is None or l.kind not in ("call", "store", "aug", "assign"):
                    continue
                for t in _subterms_(v):
                    if t[0] != "mul" or not any("temperature" in _show_(f)[:200] for f in t[1:]):
                        continue
                    for f in t[1:]:
                        if want_div and f[0] == "bin" and f[1] == "Div" and f[2] == ("const", 1) and f[3][0] == "const":
                            out.add(float(f[3][1]))
                        if want_div and f[0] == "pow" and len(f) == 3 and f[1][0] == "const" and f[2] == ("const", -1):
                            out.add(float(f[1][1]))
                        if not want_div and f[0] == "const" and isinstance(f[1], (int, float)) and not isinstance(f[1], bool) and f[1] > 1:
                            out.add(float(f[1]))
            if l.kind == "aug" and l.op in ("Mult", "Div") and l.target is not None and (_sym.contains(l.target, ("const", "temperature")) or any(t[0] == "attr" and t[2] == "temperature" for t in _subterms_(l.target))) and l.value is not None and l.value[0] == "const":
                if (l.op == "Div") == want_div:
                    out.add(float(l.value[1]))
        return out

    fd_, fm_ = _temp_factors(pi, True), _temp_factors(tn, False)
    if not fd_:
        # the shown form of a division: x*1/(c)
        import re as _re17
        for l in _S(E, pi).log:
            if l.value is not None and "temperature" in _show_(l.value)[:300]:
                fd_ |= {float(m_) for m_ in _re17.findall(r"temperature\*1/\(([0-9.e+]+)\)", _show_(l.value)[:300])}
    div, mul = 1e6 in fd_, 1e6 in fm_
    rep.check(div == mul and div, "PAIR", "SimConfig|temperature-unit-conversion", "µK->K on construction is paired with K->µK in to_noise_model", f"temperature conversion unpaired: /1e6 in __post_init__={div}, *1e6 in to_noise_model={mul}", E.where(tn))
    rep.floor("PAIR", 1)


def _observables(E: Engine, rep: Report) -> None:
    P = E.P
    obs_base = P.cls("pulser.backend.observable.Observable")
    subs = [c for c in P.subclasses(obs_base) if c.module.name == "pulser.backend.default_observables"]
    base_keys = set()
    for f in P.lookup_method(obs_base, "_to_abstract_repr"):
        for n in ast.walk(f.node):
            if isinstance(n, ast.Dict):
                base_keys |= {k.value for k in n.keys if isinstance(k, ast.Constant)}
    dser = E.fn("pulser.json.abstract_repr.backend._deserialize_observable")
    handled: dict[str, str] = {}
    from .. import sym as _symo
    from .symutil import S as _So, finite_maps as _fmo, unobj as _uno

    # tag -> constructor, from the returns of the decoder: each is reached under `<tag expr> == "<tag>"`
    # (the tag expression is whatever the function pops from the 'observable' key), or through a lookup table
    for l in _So(E, dser).logged("return"):
        v = _uno(l.value) if l.value is not None else None
        if v is None or v[0] != "call":
            continue
        ctor = _symo.show(v[1]) if v[1][0] in ("name", "attr") else None
        for x in _symo.conj_of(l.cond):
            if x[0] == "cmp" and x[1] == "Eq":
                for a_, b_ in ((x[2], x[3]), (x[3], x[2])):
                    if b_[0] == "const" and isinstance(b_[1], str) and any(t[0] == "const" and t[1] == "observable" for t in _symo.subterms(a_)):
                        handled[b_[1]] = ctor or "?"
        for subj, tab in _fmo(v[1]):
            if any(t[0] == "const" and t[1] == "observable" for t in _symo.subterms(subj)):
                for k_, val_ in tab.items():
                    if isinstance(k_, str) and _uno(val_)[0] == "name":
                        handled[k_] = _uno(val_)[1]
    if len(handled) < 5:
        raise AnalysisError(f"anchor: the tag -> observable table of _deserialize_observable was not found (got {sorted(handled)})")
    cfg = P.schemas["config-schema.json"]
    tags: dict[str, ClassInfo] = {}
    for c in subs:
        tag = None
        for f in c.methods.get("_base_tag", []):
            for n in ast.walk(f.node):
                if isinstance(n, ast.Return) and isinstance(n.value, ast.Constant):
                    tag = n.value.value
        if tag is None:
            continue
        refuses = any(isinstance(n, ast.Raise) for f in c.methods.get("_to_abstract_repr", []) for n in ast.walk(f.node))
        if refuses:
            rep.excepted("TABLE", f"observable|{tag}|not-serialisable", f"{c.name}._to_abstract_repr refuses serialisation explicitly", E.where_mod(c.module.relpath, c.node))
            continue
        tags[tag] = c
    for tag in sorted(set(tags) | set(handled)):
        rep.check(tag in tags and tag in handled and handled.get(tag) == tags[tag].name if tag in tags else False, "TABLE", f"observable|{tag}|writer-reader",
                  f"tag '{tag}' decodes to {handled.get(tag)}", f"observable tag '{tag}': class={tags[tag].name if tag in tags else 'NONE'}, _deserialize_observable -> {handled.get(tag, 'NOT HANDLED')}", E.where(dser))
        rep.check(tag in cfg and isinstance(cfg[tag], dict), "TABLE", f"observable|{tag}|in-schema", "config schema defines the observable", f"config-schema.json has no definition for observable '{tag}'", SCH_DIR + "config-schema.json")
    for tag, c in sorted(tags.items()):
        keys = set(base_keys)
        for k in P.mro(c):
            if k is obs_base:
                break
            for f in k.methods.get("_to_abstract_repr", []):
                for n in ast.walk(f.node):
                    if isinstance(n, ast.Subscript) and isinstance(n.ctx, ast.Store) and isinstance(n.slice, ast.Constant):
                        keys.add(n.slice.value)
        init = P.lookup_method(c, "__init__")
        params = set(init[0].params[1:]) if init else set()
        rep.check(keys - {"observable"} <= params, "TABLE", f"observable|{tag}|emitted-keys-are-ctor-params", f"{sorted(keys - {'observable'})}", f"{c.name} emits {sorted(keys - {'observable'} - params)} which its constructor does not accept (decoding passes them back as **obs)", E.where_mod(c.module.relpath, c.node))
        if tag in cfg and isinstance(cfg[tag], dict) and "properties" in cfg[tag]:
            props = set(cfg[tag]["properties"])
            rep.check(keys == props, "TABLE", f"observable|{tag}|emitted-keys=schema-properties", f"{sorted(keys)}", f"{c.name} emits {sorted(keys)} but config-schema.json/{tag} declares properties {sorted(props)} (difference {sorted(keys ^ props)})", SCH_DIR + "config-schema.json")


def _results(E: Engine, rep: Report) -> None:
    P = E.P
    res = P.cls("pulser.backend.results.Results")
    w = P.lookup_method(res, "_to_abstract_repr")
    r = P.lookup_method(res, "_from_abstract_repr")
    if not w or not r:
        raise AnalysisError("anchor: Results abstract repr methods not found")
    wk = set()
    ret_names = {n.value.id for n in ast.walk(w[0].node) if isinstance(n, ast.Return) and isinstance(n.value, ast.Name)}
    for n in ast.walk(w[0].node):
        if isinstance(n, ast.Assign) and isinstance(n.targets[0], ast.Name) and n.targets[0].id in ret_names and isinstance(n.value, ast.Dict):
            wk |= {k.value for k in n.value.keys if isinstance(k, ast.Constant)}
        if isinstance(n, ast.Return) and isinstance(n.value, ast.Dict):
            wk |= {k.value for k in n.value.keys if isinstance(k, ast.Constant)}
        if isinstance(n, ast.Subscript) and isinstance(n.ctx, ast.Store) and isinstance(n.value, ast.Name) and n.value.id in ret_names and isinstance(n.slice, ast.Constant):
            wk.add(n.slice.value)
    rk = set()
    src = r[0].params[1] if len(r[0].params) > 1 else None
    for n in ast.walk(r[0].node):
        if isinstance(n, ast.Subscript) and isinstance(n.slice, ast.Constant) and isinstance(n.slice.value, str) and isinstance(n.value, ast.Name) and n.value.id == src:
            rk.add(n.slice.value)
    props = set(P.schemas["results-schema.json"]["definitions"]["Results"]["properties"])
    rep.check(rk <= wk and len(rk) >= 4, "TABLE", "Results|keys-read⊆keys-written", f"read {sorted(rk)}", f"Results._from_abstract_repr reads {sorted(rk - wk)} which _to_abstract_repr does not write", E.where(r[0]))
    rep.check(wk == props, "TABLE", "Results|keys-written=schema", f"{sorted(wk)}", f"Results writes {sorted(wk)} but the schema declares {sorted(props)}", SCH_DIR + "results-schema.json")


_FIELD_ARG_MODULES = ("pulser.noise_model", "pulser.channels", "pulser.devices._device_datacls", "pulser_simulation.simconfig", "pulser.backend", "pulser.register", "pulser.result")
_CONVERTERS = ("tuple", "set", "list", "float", "int", "cast", "_deserialize_parameter", "_convert_complex", "deepcopy")


def _swapped_arguments(E: Engine, rep: Report) -> dict:
    """A positional argument whose name is the name of a *different* parameter of the callee."""
    P = E.P
    sc_mod = P.module("pulser_simulation.simconfig")
    alias = {v: k for k, v in P.fold(sc_mod, sc_mod.assigns["_DIFF_NOISE_PARAMS"]).items()}
    n_sites = 0
    n_viol = 0
    idx = E.call_index()
    seen = set()
    for callee_q, sites in sorted(idx.items()):
        callee = P.functions.get(callee_q)
        if callee is None or callee.kind in ("property", "cached_property", "setter"):
            continue
        for caller, e in sites:
            n = e.node
            if not isinstance(n, ast.Call) or id(n) in seen or len(e.callees) != 1:
                continue
            seen.add(id(n))
            cal, mode = e.callees[0]
            f = cal.innermost()
            if cal.binding:
                continue
            params = [x.arg for x in f.node.args.posonlyargs + f.node.args.args]
            if mode in ("bound", "ctor") and params:
                params = params[1:]
            elif f.cls is not None and f.kind == "classmethod" and params:
                params = params[1:]
            names = []
            for a in n.args:
                if isinstance(a, ast.Starred):
                    break
                t = a.attr if isinstance(a, ast.Attribute) else a.id if isinstance(a, ast.Name) else None
                names.append(alias.get(t, t) if t else None)
            if len(names) < 2 or not any(t in params for t in names if t):
                continue
            n_sites += 1
            bad = [(i, t) for i, t in enumerate(names) if t and t in params and i < len(params) and params.index(t) != i and params[i] != t and (names.count(t) == 1)]
            # only a genuine permutation: the parameter at position i is itself passed elsewhere
            bad = [(i, t) for i, t in bad if params[i] in names]
            key = f"{caller.short}|{f.short}|{','.join(str(i) for i, _t in bad) or 'ok'}"
            if bad:
                n_viol += 1
                rep.violation("SWAP", key, f"call `{norm(n)[:120]}` passes {[t for _i, t in bad]} in the positions of parameters {[params[i] for i, _t in bad]} of {f.short}{tuple(params)}: arguments swapped", E.where(caller, n))
            else:
                rep.ok("SWAP", f"{caller.short}|{f.short}|L{len(names)}|{'-'.join(t or '_' for t in names)[:60]}", "positional arguments named like parameters are in their positions", E.where(caller, n), nontrivial=True)
    # FIELD-ARG: an argument that *names* field t of a serialisable dataclass (a name, an attribute `.t`, a key
    # `d["t"]`, possibly through a converter) is bound to a parameter p that is a different field of the same class
    univ: list[tuple[str, set]] = []
    for c in P.classes.values():
        if not c.module.name.startswith(_FIELD_ARG_MODULES):
            continue
        try:
            fs = {f.name for _k, f in P.dataclass_fields(c)}
        except Exception:
            fs = set()
        if len(fs) >= 2:
            univ.append((c.name, fs))
    if len(univ) < 8:
        raise AnalysisError("anchor: fewer than 8 serialisable dataclasses found for the FIELD-ARG rule")

    def named(a: ast.AST):
        if isinstance(a, ast.Call) and a.args and isinstance(a.func, ast.Name) and a.func.id in _CONVERTERS:
            a = a.args[-1] if a.func.id == "cast" else a.args[0]
        if isinstance(a, ast.Name):
            return a.id
        if isinstance(a, ast.Attribute):
            return a.attr
        if isinstance(a, ast.Subscript) and isinstance(a.slice, ast.Constant) and isinstance(a.slice.value, str):
            return a.slice.value
        return None

    n_field = 0
    seen2 = set()
    for callee_q, sites in sorted(idx.items()):
        if P.functions.get(callee_q) is None:
            continue
        for caller, e in sites:
            n = e.node
            if not isinstance(n, ast.Call) or id(n) in seen2 or len(e.callees) != 1:
                continue
            seen2.add(id(n))
            cal, mode = e.callees[0]
            f = cal.innermost()
            if cal.binding:
                continue
            params = [x.arg for x in f.node.args.posonlyargs + f.node.args.args]
            if (mode in ("bound", "ctor") or (f.cls is not None and f.kind == "classmethod")) and params:
                params = params[1:]
            pairs = []
            for i, a in enumerate(n.args):
                if isinstance(a, ast.Starred):
                    break
                if i < len(params):
                    pairs.append((params[i], a))
            pairs += [(k.arg, k.value) for k in n.keywords if k.arg]
            for pn, a in pairs:
                t = named(a)
                if t is None:
                    continue
                t_ = alias.get(t.lstrip("_"), t.lstrip("_"))
                p_ = alias.get(pn.lstrip("_"), pn.lstrip("_"))
                us = [u for u, fs in univ if t_ in fs and p_ in fs]
                if not us:
                    continue
                n_field += 1
                key = f"{caller.short}|{f.short}|{pn}"
                if t_ == p_:
                    rep.ok("SWAP", key + "|field-arg", f"parameter `{pn}` receives the value named `{t}`", E.where(caller, n), nontrivial=True)
                else:
                    rep.violation("SWAP", key + "|field-arg", f"call `{norm(n)[:100]}` binds parameter `{pn}` of {f.short} to `{norm(a)[:60]}`, which names the different field `{t_}` of {us[0]}: wrong field forwarded", E.where(caller, n))
    if n_field < 60:
        raise AnalysisError(f"FIELD-ARG: only {n_field} field-named arguments found (expected >= 60)")
    return {"call_sites_with_named_positionals": n_sites, "swapped": n_viol, "field_named_arguments": n_field}


def _shared(E: Engine, rep: Report) -> dict:
    """No class-level shared mutable state."""
    P = E.P
    n_cls_assign = 0
    n_mutable_defaults = 0
    n_class_mutables = 0
    for f in P.all_functions():
        a = f.node.args
        pos = a.posonlyargs + a.args
        first = pos[0].arg if pos else None
        cls_names = set()
        if f.cls is not None:
            cls_names = {k.name for k in P.mro(f.cls)}
        for n in ast.walk(f.node):
            tgt = None
            if isinstance(n, (ast.Assign, ast.AugAssign, ast.AnnAssign)):
                ts = n.targets if isinstance(n, ast.Assign) else [n.target]
                for t in ts:
                    if isinstance(t, ast.Attribute):
                        tgt = t
                        base = t.value
                        is_cls = False
                        if isinstance(base, ast.Name) and ((f.kind == "classmethod" and base.id == first) or base.id in cls_names):
                            is_cls = True
                        if isinstance(base, ast.Call) and (dotted(base.func) or "") == "type" and base.args and isinstance(base.args[0], ast.Name) and base.args[0].id == first:
                            is_cls = True
                        if isinstance(base, ast.Attribute) and base.attr == "__class__":
                            is_cls = True
                        if is_cls:
                            n_cls_assign += 1
                            rep.violation("SHARED", f"{f.short}|class-attribute-assignment|{t.attr}", f"`{norm(n)}` assigns an attribute of the class object: every instance (past and future) shares and sees the new value", E.where(f, n))
            if isinstance(n, ast.Call) and (dotted(n.func) or "") == "setattr" and n.args and isinstance(n.args[0], ast.Name) and (n.args[0].id in cls_names or (f.kind == "classmethod" and n.args[0].id == first)):
                n_cls_assign += 1
                rep.violation("SHARED", f"{f.short}|class-attribute-setattr", f"`{norm(n)}` sets an attribute of the class object", E.where(f, n))
        # mutable default arguments must not be written through
        defaults = f.param_defaults()
        for pname, d in defaults.items():
            mutable = isinstance(d, (ast.Dict, ast.List, ast.Set)) or (isinstance(d, ast.Call) and (dotted(d.func) or "").split(".")[-1] not in ("field", "tuple", "frozenset", "float", "int", "str", "cast"))
            if not mutable:
                continue
            n_mutable_defaults += 1
            written = None
            for n in ast.walk(f.node):
                if isinstance(n, ast.Call) and isinstance(n.func, ast.Attribute) and isinstance(n.func.value, ast.Name) and n.func.value.id == pname and n.func.attr in ("append", "extend", "update", "pop", "clear", "setdefault", "add", "insert", "remove", "popitem", "sort"):
                    written = n
                if isinstance(n, (ast.Assign, ast.AugAssign)):
                    for t in (n.targets if isinstance(n, ast.Assign) else [n.target]):
                        if isinstance(t, (ast.Subscript, ast.Attribute)) and isinstance(t.value, ast.Name) and t.value.id == pname:
                            written = n
            rep.check(written is None, "SHARED", f"{f.short}|mutable-default|{pname}", f"default `{norm(d)}` is never written through", f"mutable default argument {pname}={norm(d)} is mutated by `{norm(written) if written is not None else ''}`: the change is shared by all later calls", E.where(f, written if written is not None else f.node))
    for c in P.classes.values():
        if getattr(c, "synthetic_namedtuple", False):
            continue
        for name, v in c.class_assigns.items():
            if isinstance(v, (ast.Dict, ast.List, ast.Set)) and not name.isupper() and not name.startswith("__"):
                # a class-level mutable literal: must not be mutated through self
                n_class_mutables += 1
                mutated = False
                for fs in c.methods.values():
                    for f in fs:
                        for n in ast.walk(f.node):
                            if isinstance(n, ast.Call) and isinstance(n.func, ast.Attribute) and isinstance(n.func.value, ast.Attribute) and n.func.value.attr == name and n.func.attr in ("append", "extend", "update", "pop", "clear", "setdefault", "add", "insert", "remove"):
                                mutated = True
                            if isinstance(n, (ast.Assign, ast.AugAssign)):
                                for t in (n.targets if isinstance(n, ast.Assign) else [n.target]):
                                    if isinstance(t, ast.Subscript) and isinstance(t.value, ast.Attribute) and t.value.attr == name:
                                        mutated = True
                rep.check(not mutated, "SHARED", f"{c.short}|class-level-mutable|{name}", "class-level mutable is never mutated through an instance", f"class-level mutable {c.short}.{name} = {norm(v)} is mutated in a method: all instances share it", E.where_mod(c.module.relpath, v))
    rep.ok("SHARED", "program|class-attribute-assignments", f"{n_cls_assign} class-attribute assignments in {len(P.functions)} functions", "", nontrivial=True)
    # one object stored under many keys / in many slots: dict.fromkeys(keys, <object>) and [<object>] * n make every
    # entry the *same* mutable object (an immutable constant is fine)
    n_rep = 0
    for m in P.modules.values():
        for n in ast.walk(m.tree):
            shared_val = None
            if isinstance(n, ast.Call) and isinstance(n.func, ast.Attribute) and n.func.attr == "fromkeys" and isinstance(n.func.value, ast.Name) and n.func.value.id in ("dict", "OrderedDict", "defaultdict") and len(n.args) == 2:
                shared_val = n.args[1]
            elif isinstance(n, ast.BinOp) and isinstance(n.op, ast.Mult):
                for side in (n.left, n.right):
                    if isinstance(side, ast.List) and len(side.elts) == 1:
                        shared_val = side.elts[0]
            if shared_val is None:
                continue
            n_rep += 1
            mutable = isinstance(shared_val, (ast.List, ast.Dict, ast.Set, ast.ListComp, ast.DictComp, ast.SetComp))
            if isinstance(shared_val, ast.Call):
                # an instance of a class of this program that is not an immutable record (frozen dataclass / NamedTuple / Enum)
                cname = (dotted(shared_val.func) or "").split(".")[-1]
                for c in P.classes.values():
                    if c.name == cname:
                        frozen = any("frozen=True" in norm(d) for d in c.node.decorator_list) or any((dotted(b) or "").split(".")[-1] in ("NamedTuple", "Enum", "IntEnum", "str") for b in c.node.bases)
                        mutable = mutable or not frozen
            rep.check(not mutable, "SHARED", f"{m.name.split('.')[-1]}|replicated-object|L{n.lineno}" if mutable else f"{m.name.split('.')[-1]}|replicated-constant|{norm(shared_val)[:30]}", "the replicated value is an immutable constant",
                      f"`{norm(n)[:100]}` stores one and the same object `{norm(shared_val)[:40]}` under every key / in every slot: changing one entry's state changes all of them", f"{m.relpath}:{n.lineno}")
    return {"class_attribute_assignments": n_cls_assign, "mutable_default_arguments": n_mutable_defaults, "class_level_mutables": n_class_mutables, "replications": n_rep}
