"""C20 finding 6: the eigenstates of the initial state are ignored.

A QutipState carries the order of its eigenstates ("a" -> (1, 0, ...),
"b" -> (0, 1, ...)). QutipBackendV2 passes `initial_state.to_qobj()` to the
emulator without looking at them, so a state written in another order (or
even in another basis) is emulated - and reported at t=0 - as a different
state.
"""
import sys

import numpy as np

import pulser
from pulser.backend.default_observables import Occupation, StateResult
from pulser_simulation import QutipBackendV2, QutipConfig, QutipState

reg = pulser.Register.from_coordinates([(0, 0), (6, 0)], prefix="q")
seq = pulser.Sequence(reg, pulser.MockDevice)
seq.declare_channel("ryd", "rydberg_global")
seq.add(pulser.Pulse.ConstantPulse(200, 1.0, 0.0, 0.0), "ryd")

failures = []


def check(label, eigenstates, amplitudes, expected_r_occupation):
    init = QutipState.from_state_amplitudes(
        eigenstates=eigenstates, amplitudes=amplitudes
    )
    config = QutipConfig(
        observables=[Occupation(one_state="r"), StateResult()],
        default_evaluation_times=(0.0,),
        initial_state=init,
    )
    try:
        results = QutipBackendV2(seq, config=config).run()
    except (ValueError, NotImplementedError) as e:
        print(f"[{label}] rejected: {e}")
        return
    occ = results.occupation[0]
    ok = expected_r_occupation is not None and np.allclose(
        occ, expected_r_occupation
    )
    print(f"[{label}] initial state {amplitudes} in basis {eigenstates}: "
          f"occupation of 'r' at t=0 is {occ} in basis "
          f"{results.state[0].eigenstates} {'ok' if ok else 'WRONG'}")
    if not ok:
        failures.append(label)


# |rr> written with the eigenstates in the other order: <n_r> must be [1, 1]
check("permuted", ("g", "r"), {"rr": 1.0}, [1.0, 1.0])
# |rg>: <n_r> must be [1, 0]
check("permuted-2", ("g", "r"), {"rg": 1.0}, [1.0, 0.0])
# A state of another basis altogether can't be an initial state here
check("other basis", ("u", "d"), {"dd": 1.0}, None)

if failures:
    print("FAIL:", failures)
    sys.exit(1)
print("PASS")
