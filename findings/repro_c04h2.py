"""C04 finding 2: the legacy JSON encoder cannot encode a parametrized
sequence that uses a slice of a variable (e.g. ``var[1:]``), although
``Variable.__getitem__`` accepts slices, the sequence builds fine and the
abstract representation handles it."""
import json
import sys
import warnings

import numpy as np

from pulser import Pulse, Register, Sequence
from pulser.devices import MockDevice
from pulser.json.coders import PulserDecoder, PulserEncoder
from pulser.sampler import sample
from pulser.waveforms import InterpolatedWaveform

warnings.simplefilter("ignore")


def amp(seq):
    return sample(seq).channel_samples["ch"].amp.as_array()


ok = True
for label, key in (
    ("vals[1:]", slice(1, None)),
    ("vals[::-1]", slice(None, None, -1)),
    ("vals[-3:-1]", slice(-3, -1)),
):
    reg = Register.square(2, 5, prefix="q")
    seq = Sequence(reg, MockDevice)
    seq.declare_channel("ch", "rydberg_global")
    vals = seq.declare_variable("vals", size=4)
    seq.add(
        Pulse.ConstantDetuning(InterpolatedWaveform(200, vals[key]), 0, 0),
        "ch",
    )
    assignment = dict(vals=[0.5, 2.0, 1.0, 0.1])
    built = seq.build(**assignment)  # the sequence itself is fine
    try:
        encoded = json.dumps(seq, cls=PulserEncoder)
        seq2 = json.loads(encoded, cls=PulserDecoder)
        built2 = seq2.build(**assignment)
        same = np.allclose(amp(built), amp(built2))
        print(f"{label}: legacy round trip done, same samples: {same}")
        ok &= bool(same)
    except Exception as e:  # noqa
        print(f"{label}: legacy round trip failed with {type(e).__name__}: {e}")
        ok = False
    # The abstract representation copes with the same sequence
    seq3 = Sequence.from_abstract_repr(seq.to_abstract_repr())
    assert np.allclose(amp(built), amp(seq3.build(**assignment)))

print("PASS" if ok else "FAIL")
sys.exit(0 if ok else 1)
