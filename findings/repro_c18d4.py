"""C18 / switch_device crashes with KeyError on an XY sequence that has an
SLM mask (the sibling of the already fixed IndexError on config_slm_mask).

In XY mode config_slm_mask() does not declare its DMM as a channel, so the
DMM is not in the channel matching, but the replay looks it up in there.
"""
import dataclasses
import sys
import warnings

from pulser import Pulse, Register, Sequence
from pulser.devices import MockDevice

warnings.simplefilter("ignore")

reg = Register.square(2, 6, prefix="q")
# Same channels, same DMM, only the name differs: nothing can be altered
new_device = dataclasses.replace(MockDevice, name="MockDevice2")


def slots(s):
    return {
        name: [
            (sl.type if isinstance(sl.type, str) else "pulse", sl.ti, sl.tf)
            for sl in sch.slots
        ]
        for name, sch in s._schedule.items()
    }


failed = False
for parametrized in (False, True):
    for strict in (True, False):
        seq = Sequence(reg, MockDevice)
        seq.declare_channel("mw", "mw_global")
        seq.config_slm_mask(["q0"], "dmm_0")
        amp = seq.declare_variable("a", dtype=float) if parametrized else 1.0
        seq.add(Pulse.ConstantPulse(100, amp, 0, 0), "mw")
        label = f"parametrized={parametrized}, strict={strict}"
        try:
            new_seq = seq.switch_device(new_device, strict=strict)
        except (ValueError, TypeError) as e:
            # A refusal to switch is allowed by the property ...
            print(f"[{label}] refused: {type(e).__name__}: {e}")
            continue
        except Exception as e:
            # ... but there is nothing to refuse here: this is a crash
            print(f"[{label}] crashed with {type(e).__name__}: {e}")
            failed = True
            continue
        if parametrized:
            seq, new_seq = seq.build(a=1.0), new_seq.build(a=1.0)
        ok = (
            slots(seq) == slots(new_seq)
            and new_seq._slm_mask_targets == {"q0"}
            and new_seq._slm_mask_time == seq._slm_mask_time
        )
        print(f"[{label}] switched, same timeline and SLM mask: {ok}")
        failed |= not ok

if failed:
    print("FAIL")
    sys.exit(1)
print("PASS")
