"""C13: after measure(), the first call carrying a variable is accepted (stored for build).
cd /tmp && PYTHONPATH=/repo/pulser-core:/repo/pulser-simulation /venv/bin/python -W ignore /verif/findings/repro_c13b.py"""
from pulser import Pulse, Register, Sequence
from pulser.devices import MockDevice

reg = Register.from_coordinates([(0, 0), (6, 0)], prefix="q")
seq = Sequence(reg, MockDevice)
seq.declare_channel("ch", "rydberg_global")
v = seq.declare_variable("v", dtype=int)
seq.add(Pulse.ConstantPulse(100, 1.0, 0.0, 0.0), "ch")
seq.measure()
try:
    seq.delay(v, "ch")
    print("variable_call_after_measure: VIOLATED (accepted; to-build calls:", [c.name for c in seq._to_build_calls], ", is_measured() now", seq.is_measured(), ")")
except RuntimeError as e:
    print("variable_call_after_measure: holds (", e, ")")
