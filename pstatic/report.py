"""Result collection, known findings, evidence files, exit codes (DESIGN 7)."""
from __future__ import annotations

import json
import os
import time
from dataclasses import dataclass, field
from typing import Any, Optional

VERIF = os.path.dirname(os.path.dirname(os.path.abspath(__file__)))
# self-tests analyse scratch copies: their evidence must not overwrite the real one
EVIDENCE_DIR = os.environ.get("PSTATIC_EVIDENCE_DIR") or os.path.join(VERIF, "evidence")


@dataclass
class Instance:
    rule: str
    key: str
    status: str  # ok | violation | known | excepted
    detail: str = ""
    where: str = ""  # file:line (function)
    nontrivial: bool = True
    extra: dict = field(default_factory=dict)


class Report:
    def __init__(self, prop: str, tier: str):
        self.prop = prop
        self.tier = tier
        self.instances: list[Instance] = []
        self.floors: list[tuple[str, int, int]] = []  # (rule, found, minimum)
        self.errors: list[str] = []
        self.notes: dict[str, Any] = {}
        self.t0 = time.time()
        self._known = _load_known(prop)
        self.known_hit: set[str] = set()

    # ---------------------------------------------------------------- record
    def ok(self, rule: str, key: str, detail: str = "", where: str = "", nontrivial: bool = True, **extra: Any) -> None:
        self.instances.append(Instance(rule, key, "ok", detail, where, nontrivial, extra))

    def excepted(self, rule: str, key: str, reason: str, where: str = "", **extra: Any) -> None:
        """An instance the rule reports but a frozen, reasoned table entry discharges."""
        self.instances.append(Instance(rule, key, "excepted", reason, where, True, extra))

    def violation(self, rule: str, key: str, detail: str, where: str = "", **extra: Any) -> None:
        kf = self._known.get((rule, key))
        if kf is not None and kf.get("status") == "known":
            self.known_hit.add(f"{rule}|{key}")
            self.instances.append(Instance(rule, key, "known", detail, where, True, dict(extra, what=kf.get("what", ""))))
        else:
            self.instances.append(Instance(rule, key, "violation", detail, where, True, extra))

    def is_known(self, rule: str, key: str) -> bool:
        kf = self._known.get((rule, key))
        return kf is not None and kf.get("status") == "known"

    def check(self, cond: bool, rule: str, key: str, detail_ok: str = "", detail_bad: str = "", where: str = "", **extra: Any) -> bool:
        if cond:
            self.ok(rule, key, detail_ok, where, **extra)
        else:
            self.violation(rule, key, detail_bad or detail_ok, where, **extra)
        return cond

    def floor(self, rule: str, minimum: int) -> None:
        found = sum(1 for i in self.instances if i.rule == rule)
        self.floors.append((rule, found, minimum))
        if found < minimum:
            self.errors.append(f"rule {rule}: {found} instances found, floor is {minimum} (rule would pass vacuously)")

    def error(self, msg: str) -> None:
        self.errors.append(msg)

    # ---------------------------------------------------------------- output
    @property
    def violations(self) -> list[Instance]:
        return [i for i in self.instances if i.status == "violation"]

    @property
    def known(self) -> list[Instance]:
        return [i for i in self.instances if i.status == "known"]

    def finish(self, seed: int, coverage_extra: dict, explanation: str, assumptions: list[str]) -> int:
        os.makedirs(os.path.join(EVIDENCE_DIR, "replay"), exist_ok=True)
        viol = self.violations
        replay_paths = []
        for n, v in enumerate(viol):
            p = os.path.join(EVIDENCE_DIR, "replay", f"{self.prop}-{n}.json")
            with open(p, "w") as f:
                json.dump({"property": self.prop, "rule": v.rule, "key": v.key, "where": v.where, "detail": v.detail, "extra": _jsonable(v.extra)}, f, indent=1)
            replay_paths.append(p)
        distinct = {(i.rule, i.key) for i in self.instances if i.nontrivial}
        samples = []
        seen_rules: dict[str, int] = {}
        for i in self.instances:
            if seen_rules.get(i.rule, 0) < 2:
                seen_rules[i.rule] = seen_rules.get(i.rule, 0) + 1
                samples.append({"rule": i.rule, "instance": i.key, "status": i.status, "where": i.where, "detail": i.detail[:400]})
        per_rule: dict[str, dict[str, int]] = {}
        for i in self.instances:
            d = per_rule.setdefault(i.rule, {})
            d[i.status] = d.get(i.status, 0) + 1
        cov = {
            "explanation": explanation,
            "obligations": len(self.instances),
            "discharged": sum(1 for i in self.instances if i.status in ("ok", "excepted")),
            "evaluations": len(self.instances),
            "distinct_nontrivial": len(distinct),
            "rule": "one evaluation per rule instance (a path, table row, guard atom, write site or call site enumerated from /repo's current source); distinct = distinct (rule, key); non-trivial = the instance involved an analysis step (dominance, reachability, table comparison, atom matching), not a mere lookup",
            "samples": samples[:40],
            "exhaustive": True,
            "per_rule": per_rule,
            "floors": [{"rule": r, "found": f, "minimum": m} for r, f, m in self.floors],
            "known_findings_reported": sorted(self.known_hit),
            "excepted": [{"rule": i.rule, "key": i.key, "reason": i.detail} for i in self.instances if i.status == "excepted"][:200],
            "violations_list": [{"rule": v.rule, "key": v.key, "where": v.where, "detail": v.detail[:600]} for v in viol],
            "analysis_errors": self.errors,
            "checker_cmd": f"python3-vt check.py {self.prop} --tier {self.tier}",
            "trusted_base": [
                "stdlib ast parser",
                "pstatic light type inference and call resolution (unresolved call sites are listed)",
                "spec tables under /verif/tables (written from the property statements)",
            ],
        }
        cov.update(coverage_extra)
        ev = {
            "property_id": self.prop,
            "tier": self.tier,
            "seed": seed,
            "level": "other",
            "coverage": _jsonable(cov),
            "assumptions": assumptions,
            "wall_s": round(time.time() - self.t0, 3),
            "violations": len(viol),
        }
        with open(os.path.join(EVIDENCE_DIR, f"{self.prop}.json"), "w") as f:
            json.dump(ev, f, indent=1, sort_keys=False)
        for k in self.known:
            print(f"KNOWN-FINDING: property={self.prop} {k.rule} {k.key} :: {k.extra.get('what', '')}")
        if self.errors:
            for e in self.errors:
                print(f"ANALYSIS-ERROR property={self.prop} {e}")
            return 2
        for v, p in zip(viol, replay_paths):
            print(f"VIOLATION property={self.prop} replay={p}")
            print(f"  rule={v.rule} instance={v.key}")
            print(f"  at {v.where}")
            print(f"  {v.detail}")
        if viol:
            return 1
        n_ok = sum(1 for i in self.instances if i.status == "ok")
        print(f"OK property={self.prop} tier={self.tier} instances={len(self.instances)} ok={n_ok} excepted={sum(1 for i in self.instances if i.status == 'excepted')} known={len(self.known)} wall={ev['wall_s']}s")
        return 0


def _jsonable(x: Any) -> Any:
    if isinstance(x, dict):
        return {str(k): _jsonable(v) for k, v in x.items()}
    if isinstance(x, (list, tuple)):
        return [_jsonable(v) for v in x]
    if isinstance(x, (set, frozenset)):
        return sorted(_jsonable(v) for v in x)
    if isinstance(x, (str, int, float, bool)) or x is None:
        return x
    return str(x)


def _load_known(prop: str) -> dict[tuple[str, str], dict]:
    p = os.path.join(VERIF, "known_findings.json")
    if not os.path.exists(p):
        return {}
    with open(p) as f:
        data = json.load(f)
    out = {}
    for e in data.get("findings", []):
        if e.get("property") == prop:
            out[(e["rule"], e["key"])] = e
    return out


def load_table(name: str) -> Any:
    with open(os.path.join(VERIF, "tables", name)) as f:
        return json.load(f)
