"""C03: align(at_rest=True) must make the channels end together at the latest end counting fall time.
cd /tmp && PYTHONPATH=/repo/pulser-core:/repo/pulser-simulation /venv/bin/python -W ignore /verif/findings/repro_c03.py"""
from pulser import Pulse, Register, Sequence
from pulser.channels import Raman, Rydberg
from pulser.devices import VirtualDevice

reg = Register.from_coordinates([(0, 0), (6, 0)], prefix="q")
dev = VirtualDevice(
    name="V", dimensions=2, rydberg_level=60,
    channel_objects=(Rydberg.Global(None, None, mod_bandwidth=4, min_duration=4, clock_period=4), Raman.Global(None, None, mod_bandwidth=4, min_duration=4, clock_period=4)),
    channel_ids=("a", "b"),
)
seq = Sequence(reg, dev)
seq.declare_channel("a", "a")
seq.declare_channel("b", "b")
seq.add(Pulse.ConstantPulse(200, 1.0, 0.0, 0.0), "a")
seq.add(Pulse.ConstantPulse(100, 1.0, 0.0, 0.0), "b", protocol="no-delay")
expected = max(seq.get_duration(c, include_fall_time=True) for c in "ab")
seq.align("a", "b", at_rest=True)
ends = {c: seq.get_duration(c) for c in "ab"}
ok = len(set(ends.values())) == 1 and set(ends.values()) == {expected}
print("align_at_rest_ends_at_latest_fall_end:", "holds" if ok else f"VIOLATED (expected both channels to end at {expected}, got {ends})")
