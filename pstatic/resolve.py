"""Light, declared type inference and call resolution (DESIGN 2.3, 2.4).

Types are frozensets of atoms:
  ('inst', qual)  instance of a project class      ('cls', qual)  the class object
  ('fn', qual)    a project function/method         ('mod', name)  a project module
  ('ext', dotted) something external (numpy, ...)   ('none',) ('num',) ('str',) ('bool',)
  ('list', T) ('set', T) ('dict', TK, TV) ('tuple', (T, ...))
  ('super', qual) result of super() inside class qual
  ('callable', Callable) a bound function parameter (decorator modelling)
The empty set means "unknown".
"""
from __future__ import annotations

import ast
from dataclasses import dataclass
from typing import Any, Iterable, Optional

from .model import ClassInfo, FunctionInfo, Module, Program, dotted, norm

Type = frozenset
UNK: Type = frozenset()


def T(*atoms: tuple) -> Type:
    return frozenset(atoms)


NOOP_DECORATORS = {
    "property", "cached_property", "staticmethod", "classmethod", "overload",
    "abstractmethod", "wraps", "dataclass", "lru_cache", "cache", "setter",
    "getter", "total_ordering", "no_type_check", "final",
}

LISTLIKE = {
    "list", "List", "Sequence", "Collection", "Iterable", "Iterator", "MutableSequence",
    "Generator", "KeysView", "ValuesView", "Reversible", "frozenset", "Container",
}
SETLIKE = {"set", "Set", "FrozenSet", "AbstractSet", "MutableSet"}
DICTLIKE = {"dict", "Dict", "Mapping", "MutableMapping", "OrderedDict", "defaultdict"}


def reflective_getattr(node: ast.Call, ctx: Any) -> Optional[ast.Call]:
    """The ``getattr(obj, name)`` call a reflective call goes through: directly (``getattr(o, n)(...)``) or through
    a local bound once to it (``m = getattr(o, n); m(...)``)."""
    f = node.func
    if isinstance(f, ast.Call) and (dotted(f.func) or "") == "getattr":
        return f
    if isinstance(f, ast.Name) and ctx is not None:
        defs = ctx.local_defs().get(f.id)
        if defs and len(defs) == 1 and defs[0][0] == "assign" and isinstance(defs[0][1], ast.Call) and (dotted(defs[0][1].func) or "") == "getattr":
            g = defs[0][1]
            # only the call-log replay idiom: the method name comes from a stored call (`<call>.name`)
            if len(g.args) >= 2 and isinstance(g.args[1], ast.Attribute) and g.args[1].attr == "name":
                return g
    return None


@dataclass(frozen=True)
class Callable_:
    """A function together with the callables bound to its free 'func' params."""

    fn: FunctionInfo
    binding: tuple = ()  # tuple[(name, Callable_)]

    @property
    def key(self) -> str:
        if not self.binding:
            return self.fn.qualname
        inner = ",".join(f"{n}={c.key}" for n, c in self.binding)
        return f"{self.fn.qualname}[{inner}]"

    def bound(self, name: str) -> Optional["Callable_"]:
        for n, c in self.binding:
            if n == name:
                return c
        return None

    def innermost(self) -> FunctionInfo:
        """The user function at the bottom of a decorator chain."""
        c = self
        while c.binding:
            c = c.binding[0][1]
        return c.fn

    def __repr__(self) -> str:
        return f"<callable {self.key}>"


class Ctx:
    """Evaluation context: a function (with bindings) whose body we look at."""

    def __init__(self, R: "Resolver", call: Callable_):
        self.R = R
        self.call = call
        self.fn = call.fn
        self.module = call.fn.module
        self._locals: Optional[dict[str, list[tuple[str, ast.AST]]]] = None
        self._tcache: dict[str, Type] = {}
        self._ecache: dict[int, Type] = {}
        self._busy: set[str] = set()
        self._params = set(call.fn.params)

    # ------------------------------------------------------------ local defs
    def local_defs(self) -> dict[str, list[tuple[str, ast.AST]]]:
        """name -> list of (kind, node) for every binding site in this function.

        kinds: 'assign' (value expr), 'ann' (annotation), 'iter' (iterable expr,
        element is bound), 'with' (context expr), 'unpack' ((value, index-path)),
        'nested' (FunctionDef), 'except' (type expr)
        """
        if self._locals is not None:
            return self._locals
        defs: dict[str, list[tuple[str, Any]]] = {}

        def bind(target: ast.AST, kind: str, value: Any, path: tuple = ()) -> None:
            if isinstance(target, ast.Name):
                if path:
                    defs.setdefault(target.id, []).append(("unpack", (kind, value, path)))
                else:
                    defs.setdefault(target.id, []).append((kind, value))
            elif isinstance(target, (ast.Tuple, ast.List)):
                for i, e in enumerate(target.elts):
                    if isinstance(e, ast.Starred):
                        bind(e.value, kind, value, path + ("*",))
                    else:
                        bind(e, kind, value, path + (i,))

        def walk(node: ast.AST) -> None:
            for ch in ast.iter_child_nodes(node):
                if isinstance(ch, (ast.FunctionDef, ast.AsyncFunctionDef)):
                    defs.setdefault(ch.name, []).append(("nested", ch))
                    continue
                if isinstance(ch, (ast.ClassDef, ast.Lambda)):
                    continue
                if isinstance(ch, ast.Assign):
                    for t in ch.targets:
                        bind(t, "assign", ch.value)
                elif isinstance(ch, ast.AnnAssign):
                    if isinstance(ch.target, ast.Name):
                        defs.setdefault(ch.target.id, []).append(("ann", ch.annotation))
                        if ch.value is not None:
                            defs.setdefault(ch.target.id, []).append(("assign", ch.value))
                elif isinstance(ch, ast.AugAssign):
                    pass
                elif isinstance(ch, (ast.For, ast.AsyncFor)):
                    bind(ch.target, "iter", ch.iter)
                elif isinstance(ch, ast.comprehension):
                    bind(ch.target, "iter", ch.iter)
                elif isinstance(ch, (ast.With, ast.AsyncWith)):
                    for it in ch.items:
                        if it.optional_vars is not None:
                            bind(it.optional_vars, "with", it.context_expr)
                elif isinstance(ch, ast.ExceptHandler):
                    if ch.name and ch.type is not None:
                        defs.setdefault(ch.name, []).append(("except", ch.type))
                elif isinstance(ch, ast.NamedExpr):
                    bind(ch.target, "assign", ch.value)
                walk(ch)

        walk(self.fn.node)
        self._locals = defs
        return defs

    def is_param(self, name: str) -> bool:
        return name in self._params

    def self_name(self) -> Optional[str]:
        if self.fn.cls is None or self.fn.kind == "staticmethod":
            # nested functions in methods see the outer self through closure
            return None
        a = self.fn.node.args
        pos = a.posonlyargs + a.args
        if self.fn.parent is not None:
            return None
        return pos[0].arg if pos else None

    def parent_ctx(self) -> Optional["Ctx"]:
        if self.fn.parent is None:
            return None
        return self.R.ctx(Callable_(self.fn.parent, ()))


class Resolver:
    def __init__(self, P: Program):
        self.P = P
        self._ctx: dict[str, Ctx] = {}
        self._attr_cache: dict[tuple[str, str], Type] = {}
        self._attr_busy: set[tuple[str, str]] = set()
        self._eff_cache: dict[str, Callable_] = {}
        self._ann_cache: dict[tuple[str, int], Type] = {}
        self.unresolved_decorators: list[tuple[str, str]] = []

    def ctx(self, c: Callable_ | FunctionInfo) -> Ctx:
        if isinstance(c, FunctionInfo):
            c = Callable_(c, ())
        k = c.key
        if k not in self._ctx:
            self._ctx[k] = Ctx(self, c)
        return self._ctx[k]

    # ------------------------------------------------------------ annotation
    def ann_type(self, m: Module, node: Optional[ast.AST], _d: int = 0) -> Type:
        if node is None or _d > 10:
            return UNK
        if _d == 0:
            k = (m.name, id(node))
            hit = self._ann_cache.get(k)
            if hit is None:
                hit = self._ann_type(m, node, 0)
                self._ann_cache[k] = hit
            return hit
        return self._ann_type(m, node, _d)

    def _ann_type(self, m: Module, node: ast.AST, _d: int) -> Type:
        if isinstance(node, ast.Constant):
            if node.value is None:
                return T(("none",))
            if isinstance(node.value, str):
                try:
                    return self.ann_type(m, ast.parse(node.value, mode="eval").body, _d + 1)
                except SyntaxError:
                    return UNK
            return UNK
        if isinstance(node, ast.BinOp) and isinstance(node.op, ast.BitOr):
            return self.ann_type(m, node.left, _d + 1) | self.ann_type(m, node.right, _d + 1)
        if isinstance(node, (ast.Name, ast.Attribute)):
            d = dotted(node)
            if d is None:
                return UNK
            last = d.split(".")[-1]
            if d in ("int", "float", "complex"):
                return T(("num",))
            if d == "bool":
                return T(("bool",))
            if d == "str":
                return T(("str",))
            if d == "None":
                return T(("none",))
            r = self.P.resolve_name(m, d)
            if isinstance(r, ClassInfo):
                return T(("inst", r.qualname))
            if last in LISTLIKE and d in (last, "typing." + last):
                return T(("list", UNK))
            if last in SETLIKE and d in (last, "typing." + last):
                return T(("set", UNK))
            if last in DICTLIKE and d in (last, "typing." + last):
                return T(("dict", UNK, UNK))
            if isinstance(r, tuple) and r[0] == "const":
                mm, nm = r[1], r[2]
                val = mm.assigns[nm]
                # TypeVar("X", bound=Y)  /  alias = Union[...]
                if isinstance(val, ast.Call) and (dotted(val.func) or "").split(".")[-1] == "TypeVar":
                    for kw in val.keywords:
                        if kw.arg == "bound":
                            return self.ann_type(mm, kw.value, _d + 1)
                    return UNK
                return self.ann_type(mm, val, _d + 1)
            if isinstance(r, tuple) and r[0] == "external":
                return T(("ext", r[1]))
            return UNK
        if isinstance(node, ast.Subscript):
            d = dotted(node.value) or ""
            last = d.split(".")[-1]
            sl = node.slice
            elts = list(sl.elts) if isinstance(sl, ast.Tuple) else [sl]
            rr = self.P.resolve_name(m, d) if d else None
            if isinstance(rr, ClassInfo):
                return T(("inst", rr.qualname))
            if last == "Optional":
                return self.ann_type(m, elts[0], _d + 1) | T(("none",))
            if last == "Union":
                out: Type = UNK
                for e in elts:
                    out = out | self.ann_type(m, e, _d + 1)
                return out
            if last in ("Literal",):
                return T(("str",))
            if last in ("Annotated", "Final", "ClassVar", "Required", "NotRequired"):
                return self.ann_type(m, elts[0], _d + 1)
            if last in LISTLIKE:
                return T(("list", self.ann_type(m, elts[0], _d + 1)))
            if last in SETLIKE:
                return T(("set", self.ann_type(m, elts[0], _d + 1)))
            if last in DICTLIKE:
                kt = self.ann_type(m, elts[0], _d + 1)
                vt = self.ann_type(m, elts[1], _d + 1) if len(elts) > 1 else UNK
                return T(("dict", kt, vt))
            if last in ("tuple", "Tuple"):
                if len(elts) == 2 and isinstance(elts[1], ast.Constant) and elts[1].value is Ellipsis:
                    return T(("list", self.ann_type(m, elts[0], _d + 1)))
                return T(("tuple", tuple(self.ann_type(m, e, _d + 1) for e in elts)))
            if last in ("type", "Type"):
                inner = self.ann_type(m, elts[0], _d + 1)
                return frozenset(("cls", a[1]) for a in inner if a[0] == "inst")
            # generic project class  Sequence[DeviceType]
            return self.ann_type(m, node.value, _d + 1)
        return UNK

    # ------------------------------------------------------- class attribute
    def attr_type(self, c: ClassInfo, attr: str) -> Type:
        """Type of ``instance_of_c.attr`` (declared)."""
        key = (c.qualname, attr)
        if key in self._attr_cache:
            return self._attr_cache[key]
        if key in self._attr_busy:
            return UNK
        self._attr_busy.add(key)
        try:
            t = self._attr_type(c, attr)
        finally:
            self._attr_busy.discard(key)
        self._attr_cache[key] = t
        return t

    def _attr_type(self, c: ClassInfo, attr: str) -> Type:
        P = self.P
        for k in P.mro(c):
            if attr in k.methods:
                fs = k.methods[attr]
                getter = [f for f in fs if f.kind in ("property", "cached_property")]
                if getter:
                    return self.ann_type(k.module, getter[0].node.returns)
                f0 = [f for f in fs if f.kind != "overload"] or fs
                return T(("fn", f0[0].qualname))
            if attr in k.fields:
                return self.ann_type(k.module, k.fields[attr].annotation)
            # self.attr assignments inside methods of k
            found: Type = UNK
            hit = False
            for fs in k.methods.values():
                for f in fs:
                    sn = None
                    a = f.node.args
                    pos = a.posonlyargs + a.args
                    if f.kind == "staticmethod" or not pos:
                        continue
                    sn = pos[0].arg
                    for n in ast.walk(f.node):
                        tgt = None
                        val = None
                        ann = None
                        if isinstance(n, ast.AnnAssign):
                            tgt, val, ann = n.target, n.value, n.annotation
                        elif isinstance(n, ast.Assign) and len(n.targets) == 1:
                            tgt, val = n.targets[0], n.value
                        if (
                            isinstance(tgt, ast.Attribute)
                            and tgt.attr == attr
                            and isinstance(tgt.value, ast.Name)
                            and tgt.value.id == sn
                        ):
                            hit = True
                            if ann is not None:
                                found = found | self.ann_type(k.module, ann)
                            elif val is not None:
                                found = found | self.type_of(val, self.ctx(f))
            if hit:
                return found
            if attr in k.class_assigns:
                return self.type_of_module_expr(k.module, k.class_assigns[attr])
        return UNK

    def type_of_module_expr(self, m: Module, node: ast.AST) -> Type:
        # evaluate in a pseudo-context without function
        if isinstance(node, ast.Constant):
            return self._const_type(node.value)
        if isinstance(node, ast.Call):
            d = dotted(node.func)
            if d:
                r = self.P.resolve_name(m, d)
                if isinstance(r, ClassInfo):
                    return T(("inst", r.qualname))
        return UNK

    @staticmethod
    def _const_type(v: Any) -> Type:
        if v is None:
            return T(("none",))
        if isinstance(v, bool):
            return T(("bool",))
        if isinstance(v, (int, float, complex)):
            return T(("num",))
        if isinstance(v, str):
            return T(("str",))
        return UNK

    # --------------------------------------------------------------- helpers
    def elem(self, t: Type) -> Type:
        out: Type = UNK
        for a in t:
            if a[0] in ("list", "set"):
                out = out | a[1]
            elif a[0] == "dict":
                out = out | a[1]
            elif a[0] == "tuple":
                for x in a[1]:
                    out = out | x
            elif a[0] == "inst":
                c = self.P.classes.get(a[1])
                if c is not None:
                    it = self.P.lookup_method(c, "__iter__")
                    if it:
                        rt = self.ann_type(it[0].module, it[0].node.returns)
                        out = out | self.elem(rt)
                    else:
                        d = self.dict_base(c)
                        if d is not None:
                            out = out | d[0]
                        else:
                            gi = self.P.lookup_method(c, "__getitem__")
                            for g in gi:
                                rt = self.ann_type(g.module, g.node.returns)
                                out = out | frozenset(x for x in rt if x[0] != "list")
        return out

    def dict_base(self, c: ClassInfo) -> Optional[tuple[Type, Type]]:
        """(key, value) types if ``c`` derives from Dict[K, V]."""
        for k in self.P.mro(c):
            for b in k.node.bases:
                if isinstance(b, ast.Subscript) and (dotted(b.value) or "").split(".")[-1] in DICTLIKE:
                    t = self.ann_type(k.module, b)
                    for a in t:
                        if a[0] == "dict":
                            return a[1], a[2]
        return None

    def classes_of(self, t: Type) -> list[ClassInfo]:
        out = []
        for a in t:
            if a[0] == "inst" and a[1] in self.P.classes:
                out.append(self.P.classes[a[1]])
        return out

    # --------------------------------------------------------------- type_of
    def type_of_name(self, name: str, ctx: Ctx) -> Type:
        if name in ctx._tcache:
            return ctx._tcache[name]
        if name in ctx._busy:
            return UNK
        ctx._busy.add(name)
        try:
            t = self._type_of_name(name, ctx)
        finally:
            ctx._busy.discard(name)
        ctx._tcache[name] = t
        return t

    def _type_of_name(self, name: str, ctx: Ctx) -> Type:
        fn = ctx.fn
        # bound callable parameter (decorator modelling)
        b = ctx.call.bound(name)
        if b is not None:
            return T(("callable", b))
        if ctx.is_param(name):
            sn = ctx.self_name()
            if sn == name and fn.cls is not None:
                if fn.kind == "classmethod":
                    return T(("cls", fn.cls.qualname))
                return T(("inst", fn.cls.qualname))
            t = self.ann_type(ctx.module, fn.param_annotation(name))
            a = fn.node.args
            if a.vararg and a.vararg.arg == name:
                return T(("list", t))
            if a.kwarg and a.kwarg.arg == name:
                return T(("dict", T(("str",)), t))
            # a default of None widens the annotation
            return t
        defs = ctx.local_defs().get(name)
        if defs:
            out: Type = UNK
            anns = [v for k, v in defs if k == "ann"]
            if anns:
                for a_ in anns:
                    out = out | self.ann_type(ctx.module, a_)
                return out
            for kind, v in defs:
                out = out | self._def_type(kind, v, ctx)
            return out
        p = ctx.parent_ctx()
        if p is not None:
            # closure variable
            if name in p.fn.params or name in p.local_defs():
                # bindings of the enclosing callable are visible too
                pb = ctx.call.bound(name)
                if pb is not None:
                    return T(("callable", pb))
                return self.type_of_name(name, p)
            pp = p.parent_ctx()
            if pp is not None and (name in pp.fn.params or name in pp.local_defs()):
                return self.type_of_name(name, pp)
        r = self.P.resolve_in_module(ctx.module, name)
        return self._resolved_type(r)

    def _resolved_type(self, r: Any) -> Type:
        if isinstance(r, ClassInfo):
            return T(("cls", r.qualname))
        if isinstance(r, FunctionInfo):
            return T(("fn", r.qualname))
        if isinstance(r, Module):
            return T(("mod", r.name))
        if isinstance(r, tuple):
            if r[0] == "external":
                return T(("ext", r[1]))
            if r[0] == "const":
                mm, nm = r[1], r[2]
                if nm in mm.ann:
                    return self.ann_type(mm, mm.ann[nm])
                return self.type_of_module_expr(mm, mm.assigns[nm])
        return UNK

    def _def_type(self, kind: str, v: Any, ctx: Ctx) -> Type:
        if kind == "assign":
            return self.type_of(v, ctx)
        if kind == "iter":
            return self.elem(self.type_of(v, ctx))
        if kind == "with":
            return self.type_of(v, ctx)
        if kind == "nested":
            nf = ctx.fn.nested.get(v.name)
            return T(("fn", nf.qualname)) if nf else UNK
        if kind == "except":
            return self.ann_type(ctx.module, v)
        if kind == "unpack":
            k2, val, path = v
            base = self._def_type(k2, val, ctx)
            for idx in path:
                nxt: Type = UNK
                for a in base:
                    if a[0] == "tuple" and isinstance(idx, int) and idx < len(a[1]):
                        nxt = nxt | a[1][idx]
                    elif a[0] in ("list", "set"):
                        nxt = nxt | a[1]
                base = nxt
            return base
        return UNK

    def type_of(self, node: ast.AST, ctx: Ctx) -> Type:
        k = id(node)
        hit = ctx._ecache.get(k)
        if hit is not None:
            return hit
        t = self._type_of(node, ctx)
        if not ctx._busy:
            ctx._ecache[k] = t
        return t

    def _type_of(self, node: ast.AST, ctx: Ctx) -> Type:
        P = self.P
        if isinstance(node, ast.Constant):
            return self._const_type(node.value)
        if isinstance(node, ast.Name):
            if node.id in ("True", "False"):
                return T(("bool",))
            return self.type_of_name(node.id, ctx)
        if isinstance(node, ast.Attribute):
            bt = self.type_of(node.value, ctx)
            out: Type = UNK
            for a in bt:
                if a[0] == "inst":
                    c = P.classes.get(a[1])
                    if c is not None:
                        out = out | self.attr_type(c, node.attr)
                elif a[0] == "cls":
                    c = P.classes.get(a[1])
                    if c is not None:
                        ms = P.lookup_method(c, node.attr)
                        if ms:
                            out = out | T(("fn", ms[0].qualname))
                        else:
                            nested = c.module.classes.get(c.short + "." + node.attr)
                            if nested is not None:
                                out = out | T(("cls", nested.qualname))
                            else:
                                out = out | self.attr_type(c, node.attr)
                elif a[0] == "mod":
                    out = out | self._resolved_type(P.resolve_in_module(P.modules[a[1]], node.attr))
                elif a[0] == "ext":
                    out = out | T(("ext", a[1] + "." + node.attr))
                elif a[0] == "super":
                    c = P.classes.get(a[1])
                    if c is not None:
                        for k in P.mro(c)[1:]:
                            if node.attr in k.methods:
                                out = out | T(("fn", k.methods[node.attr][0].qualname))
                                break
                elif a[0] == "tuple":
                    pass
            return out
        if isinstance(node, ast.Subscript):
            bt = self.type_of(node.value, ctx)
            is_slice = isinstance(node.slice, ast.Slice)
            out = UNK
            for a in bt:
                if a[0] in ("list",):
                    out = out | (T(a) if is_slice else a[1])
                elif a[0] == "set":
                    out = out | a[1]
                elif a[0] == "dict":
                    out = out | a[2]
                elif a[0] == "tuple":
                    if isinstance(node.slice, ast.Constant) and isinstance(node.slice.value, int) and -len(a[1]) <= node.slice.value < len(a[1]):
                        out = out | a[1][node.slice.value]
                    else:
                        for x in a[1]:
                            out = out | x
                elif a[0] == "inst":
                    c = P.classes.get(a[1])
                    if c is None:
                        continue
                    gi = [f for k in P.mro(c) if "__getitem__" in k.methods for f in k.methods["__getitem__"]]
                    if gi:
                        rts = [self.ann_type(g.module, g.node.returns) for g in gi]
                        for rt in rts:
                            for x in rt:
                                if is_slice == (x[0] == "list") or len(rts) == 1:
                                    out = out | T(x)
                    else:
                        d = self.dict_base(c)
                        if d is not None:
                            out = out | d[1]
            return out
        if isinstance(node, ast.Call):
            return self._call_type(node, ctx)
        if isinstance(node, ast.IfExp):
            return self.type_of(node.body, ctx) | self.type_of(node.orelse, ctx)
        if isinstance(node, ast.BoolOp):
            out = UNK
            for v in node.values:
                out = out | self.type_of(v, ctx)
            return out
        if isinstance(node, ast.NamedExpr):
            return self.type_of(node.value, ctx)
        if isinstance(node, (ast.List, ast.ListComp, ast.GeneratorExp)):
            if isinstance(node, ast.List):
                et: Type = UNK
                for e in node.elts:
                    et = et | self.type_of(e.value if isinstance(e, ast.Starred) else e, ctx)
                return T(("list", et))
            return T(("list", self.type_of(node.elt, ctx)))
        if isinstance(node, (ast.Set, ast.SetComp)):
            if isinstance(node, ast.Set):
                et = UNK
                for e in node.elts:
                    et = et | self.type_of(e, ctx)
                return T(("set", et))
            return T(("set", self.type_of(node.elt, ctx)))
        if isinstance(node, ast.Dict):
            kt: Type = UNK
            vt: Type = UNK
            for k, v in zip(node.keys, node.values):
                if k is not None:
                    kt = kt | self.type_of(k, ctx)
                    vt = vt | self.type_of(v, ctx)
                else:
                    for a in self.type_of(v, ctx):
                        if a[0] == "dict":
                            kt = kt | a[1]
                            vt = vt | a[2]
            return T(("dict", kt, vt))
        if isinstance(node, ast.DictComp):
            return T(("dict", self.type_of(node.key, ctx), self.type_of(node.value, ctx)))
        if isinstance(node, ast.Tuple):
            return T(("tuple", tuple(self.type_of(e, ctx) for e in node.elts)))
        if isinstance(node, ast.Compare):
            return T(("bool",))
        if isinstance(node, ast.UnaryOp):
            if isinstance(node.op, ast.Not):
                return T(("bool",))
            return self.type_of(node.operand, ctx)
        if isinstance(node, ast.BinOp):
            lt = self.type_of(node.left, ctx)
            return frozenset(a for a in lt if a[0] in ("num", "inst", "list", "set", "str"))
        if isinstance(node, ast.JoinedStr):
            return T(("str",))
        if isinstance(node, ast.Starred):
            return self.type_of(node.value, ctx)
        if isinstance(node, ast.Await):
            return self.type_of(node.value, ctx)
        return UNK

    def _call_type(self, node: ast.Call, ctx: Ctx) -> Type:
        P = self.P
        fd = dotted(node.func) or ""
        last = fd.split(".")[-1]
        if fd in ("cast", "typing.cast") and len(node.args) == 2:
            t = self.ann_type(ctx.module, node.args[0])
            return t if t else self.type_of(node.args[1], ctx)
        if fd == "super":
            c = ctx.fn.cls
            f = ctx.fn
            while c is None and f.parent is not None:
                f = f.parent
                c = f.cls
            return T(("super", c.qualname)) if c else UNK
        if fd == "type" and len(node.args) == 1:
            at = self.type_of(node.args[0], ctx)
            return frozenset(("cls", a[1]) for a in at if a[0] == "inst")
        if fd in ("copy.copy", "copy.deepcopy", "deepcopy") and node.args:
            return self.type_of(node.args[0], ctx)
        if fd in ("list", "tuple", "sorted", "reversed", "iter") and node.args:
            return T(("list", self.elem(self.type_of(node.args[0], ctx))))
        if fd in ("set", "frozenset"):
            return T(("set", self.elem(self.type_of(node.args[0], ctx)) if node.args else UNK))
        if fd == "dict":
            if node.args:
                return frozenset(a for a in self.type_of(node.args[0], ctx) if a[0] == "dict") or T(("dict", UNK, UNK))
            return T(("dict", T(("str",)), UNK))
        if fd == "enumerate" and node.args:
            return T(("list", T(("tuple", (T(("num",)), self.elem(self.type_of(node.args[0], ctx)))))))
        if fd == "zip":
            return T(("list", T(("tuple", tuple(self.elem(self.type_of(a, ctx)) for a in node.args)))))
        if fd in ("chain", "itertools.chain"):
            et: Type = UNK
            for a in node.args:
                et = et | self.elem(self.type_of(a, ctx))
            return T(("list", et))
        if fd in ("max", "min") and node.args:
            out: Type = UNK
            if len(node.args) == 1:
                return self.elem(self.type_of(node.args[0], ctx))
            for a in node.args:
                out = out | self.type_of(a.value if isinstance(a, ast.Starred) else a, ctx)
            return out
        if fd in ("len", "int", "float", "abs", "round", "sum"):
            return T(("num",))
        if fd in ("str", "repr"):
            return T(("str",))
        if fd in ("bool", "isinstance", "hasattr", "any", "all", "callable"):
            return T(("bool",))
        if fd == "getattr":
            return UNK
        # container methods
        if isinstance(node.func, ast.Attribute):
            bt = self.type_of(node.func.value, ctx)
            m = node.func.attr
            out = UNK
            handled = False
            for a in bt:
                if a[0] == "dict":
                    handled = True
                    if m == "items":
                        out = out | T(("list", T(("tuple", (a[1], a[2])))))
                    elif m == "values":
                        out = out | T(("list", a[2]))
                    elif m == "keys":
                        out = out | T(("list", a[1]))
                    elif m in ("get", "pop", "setdefault"):
                        out = out | a[2]
                    elif m == "copy":
                        out = out | T(a)
                elif a[0] in ("list", "set"):
                    handled = True
                    if m in ("pop",):
                        out = out | a[1]
                    elif m in ("copy", "union", "intersection", "difference"):
                        out = out | T(a)
                elif a[0] == "inst":
                    c = P.classes.get(a[1])
                    if c is not None and not P.lookup_method(c, m):
                        d = self.dict_base(c)
                        if d is not None:
                            handled = True
                            if m == "items":
                                out = out | T(("list", T(("tuple", d))))
                            elif m == "values":
                                out = out | T(("list", d[1]))
                            elif m == "keys":
                                out = out | T(("list", d[0]))
                            elif m in ("get", "pop"):
                                out = out | d[1]
                elif a[0] == "tuple" and m == "_asdict":
                    handled = True
            if handled and out:
                return out
        ft = self.type_of(node.func, ctx)
        out = UNK
        for a in ft:
            if a[0] == "cls":
                out = out | T(("inst", a[1]))
            elif a[0] == "fn":
                f = P.functions.get(a[1])
                if f is not None:
                    out = out | self.ann_type(f.module, f.node.returns)
            elif a[0] == "callable":
                f = a[1].innermost()
                out = out | self.ann_type(f.module, f.node.returns)
            elif a[0] == "ext":
                out = out | T(("ext", a[1] + "()"))
        return out

    # --------------------------------------------------- decorator modelling
    def effective(self, f: FunctionInfo) -> Callable_:
        """``f`` wrapped by its decorators (outermost first in the source)."""
        if f.qualname in self._eff_cache:
            return self._eff_cache[f.qualname]
        cur = Callable_(f, ())
        for d in reversed(f.decorators):
            cur = self._apply_decorator(f.module, d, cur, f)
        self._eff_cache[f.qualname] = cur
        return cur

    def _apply_decorator(self, m: Module, d: ast.AST, inner: Callable_, owner: FunctionInfo) -> Callable_:
        dn = dotted(d) or (dotted(d.func) if isinstance(d, ast.Call) else None) or ""
        last = dn.split(".")[-1]
        if last in NOOP_DECORATORS:
            return inner
        r = self.P.resolve_name(m, dn) if dn else None
        if isinstance(r, FunctionInfo):
            wrapped = self._decorator_wrapper(r)
            if wrapped is not None:
                wfn, pname = wrapped
                cur = Callable_(wfn, ((pname, inner),))
                # decorators stacked on the inner wrapper itself
                for dd in reversed(wfn.decorators):
                    ddn = dotted(dd) or (dotted(dd.func) if isinstance(dd, ast.Call) else None) or ""
                    if ddn.split(".")[-1] in NOOP_DECORATORS:
                        continue
                    cur = self._apply_decorator(wfn.module, dd, cur, wfn)
                return cur
        self.unresolved_decorators.append((owner.qualname, norm(d)))
        return inner

    def _decorator_wrapper(self, deco: FunctionInfo) -> Optional[tuple[FunctionInfo, str]]:
        """For ``def deco(func): def wrapper(...): ...; return wrapper`` -> (wrapper, 'func')."""
        params = deco.params
        if len(params) != 1:
            return None
        for st in deco.node.body:
            if isinstance(st, ast.Return) and st.value is not None:
                v = st.value
                if isinstance(v, ast.Call) and (dotted(v.func) or "").split(".")[-1] == "cast" and len(v.args) == 2:
                    v = v.args[1]
                if isinstance(v, ast.Name) and v.id in deco.nested:
                    return deco.nested[v.id], params[0]
        return None

    # ------------------------------------------------------- call resolution
    def callees(self, node: ast.Call, ctx: Ctx) -> tuple[list[tuple[Callable_, str]], str]:
        """Resolve a call site.

        Returns ([(callable, mode)], status); mode in {'bound','plain','ctor'}:
        'bound' = receiver is the implicit first argument; status in
        {'ok','external','builtin','unresolved','reflective'}.
        """
        P = self.P
        fd = dotted(node.func) or ""
        out: list[tuple[Callable_, str]] = []
        if isinstance(node.func, ast.Name):
            nm = node.func.id
            if reflective_getattr(node, ctx) is not None:
                return [], "reflective"
            t = self.type_of_name(nm, ctx)
            if not t:
                import builtins

                if hasattr(builtins, nm):
                    return [], "builtin"
                return [], "unresolved"
            return self._callees_of_type(t, "plain")
        if isinstance(node.func, ast.Attribute):
            m = node.func.attr
            bt = self.type_of(node.func.value, ctx)
            if not bt:
                return [], "unresolved"
            status = "ok"
            any_proj = False
            for a in bt:
                if a[0] == "inst":
                    c = P.classes.get(a[1])
                    if c is None:
                        continue
                    fs = P.lookup_method_with_overrides(c, m)
                    if fs:
                        any_proj = True
                        for f in fs:
                            if f.kind == "staticmethod":
                                out.append((self.effective(f), "plain"))
                            else:
                                out.append((self.effective(f), "bound"))
                    else:
                        at = self.attr_type(c, m)
                        sub, st2 = self._callees_of_type(at, "plain")
                        if sub:
                            any_proj = True
                            out.extend(sub)
                        elif self.dict_base(c) is not None or getattr(c, "synthetic_namedtuple", False) or self._is_builtin_derived(c):
                            status = "builtin"
                            any_proj = True
                elif a[0] == "cls":
                    c = P.classes.get(a[1])
                    if c is None:
                        continue
                    fs = P.lookup_method(c, m)
                    if fs:
                        any_proj = True
                        for f in fs:
                            if f.kind in ("classmethod",):
                                out.append((self.effective(f), "bound"))
                            else:
                                out.append((self.effective(f), "plain"))
                        if ("inst", a[1]) not in bt:
                            for s in P.subclasses(c):
                                if m in s.methods:
                                    for f in s.methods[m]:
                                        if f.kind == "classmethod":
                                            out.append((self.effective(f), "bound"))
                    else:
                        nested = c.module.classes.get(c.short + "." + m)
                        if nested is not None:
                            any_proj = True
                            out.extend(self._ctor(nested))
                elif a[0] == "super":
                    c = P.classes.get(a[1])
                    if c is None:
                        continue
                    found = False
                    for k in P.mro(c)[1:]:
                        if m in k.methods:
                            for f in k.methods[m]:
                                if f.kind != "overload":
                                    out.append((self.effective(f), "bound"))
                            found = True
                            any_proj = True
                            break
                    if not found:
                        status = "builtin"
                        any_proj = True
                elif a[0] == "mod":
                    r = P.resolve_in_module(P.modules[a[1]], m)
                    sub, st2 = self._callees_of_type(self._resolved_type(r), "plain")
                    if sub:
                        any_proj = True
                        out.extend(sub)
                    elif st2 == "external":
                        status = "external"
                        any_proj = True
                elif a[0] == "ext":
                    status = "external"
                    any_proj = True
                elif a[0] in ("list", "set", "dict", "tuple", "str", "num", "bool", "none"):
                    status = "builtin"
                    any_proj = True
                elif a[0] == "callable":
                    pass
            if out:
                return self._dedup(out), "ok"
            if any_proj:
                return [], status
            return [], "unresolved"
        if isinstance(node.func, ast.Call):
            inner = node.func
            ifd = dotted(inner.func) or ""
            if ifd == "getattr":
                return [], "reflective"
            if ifd == "type" and len(inner.args) == 1:
                at = self.type_of(inner.args[0], ctx)
                for a in at:
                    if a[0] == "inst" and a[1] in P.classes:
                        out.extend(self._ctor(P.classes[a[1]]))
                if out:
                    return self._dedup(out), "ok"
            t = self.type_of(node.func, ctx)
            return self._callees_of_type(t, "plain")
        t = self.type_of(node.func, ctx)
        if t:
            return self._callees_of_type(t, "plain")
        return [], "unresolved"

    def _is_builtin_derived(self, c: ClassInfo) -> bool:
        for k in self.P.mro(c):
            for b in k.node.bases:
                d = dotted(b.value if isinstance(b, ast.Subscript) else b) or ""
                if d.split(".")[-1] in ("NamedTuple", "Exception", "dict", "list", "Enum", "str", "ABC", "Generic", "Protocol") or d.endswith("Error"):
                    return True
        return False

    def _ctor(self, c: ClassInfo) -> list[tuple[Callable_, str]]:
        out: list[tuple[Callable_, str]] = []
        P = self.P
        new = P.lookup_method(c, "__new__")
        for f in new:
            out.append((self.effective(f), "ctor"))
        init = P.lookup_method(c, "__init__")
        for f in init:
            out.append((self.effective(f), "ctor"))
        if not init or any(k.is_dataclass for k in P.mro(c)):
            for f in P.lookup_method(c, "__post_init__"):
                out.append((self.effective(f), "ctor"))
        return out

    def _callees_of_type(self, t: Type, mode: str) -> tuple[list[tuple[Callable_, str]], str]:
        P = self.P
        out: list[tuple[Callable_, str]] = []
        status = "unresolved"
        for a in t:
            if a[0] == "fn":
                f = P.functions.get(a[1])
                if f is not None:
                    out.append((self.effective(f), mode))
            elif a[0] == "cls":
                c = P.classes.get(a[1])
                if c is not None:
                    cs = self._ctor(c)
                    out.extend(cs)
                    if not cs:
                        status = "builtin"
            elif a[0] == "callable":
                out.append((a[1], "plain"))
            elif a[0] == "ext":
                status = "external"
            elif a[0] == "inst":
                c = P.classes.get(a[1])
                if c is not None:
                    for f in P.lookup_method_with_overrides(c, "__call__"):
                        out.append((self.effective(f), "bound"))
        if out:
            return self._dedup(out), "ok"
        return [], status

    @staticmethod
    def _dedup(xs: list[tuple[Callable_, str]]) -> list[tuple[Callable_, str]]:
        seen = set()
        out = []
        for c, m in xs:
            k = (c.key, m)
            if k not in seen:
                seen.add(k)
                out.append((c, m))
        return out

    # --------------------------------------------------- properties as calls
    def property_getters(self, node: ast.Attribute, ctx: Ctx) -> list[FunctionInfo]:
        bt = self.type_of(node.value, ctx)
        out = []
        for c in self.classes_of(bt):
            fs = []
            for k in self.P.mro(c):
                if node.attr in k.methods:
                    fs = k.methods[node.attr]
                    break
            for f in fs:
                if f.kind in ("property", "cached_property"):
                    out.append(f)
            for s in self.P.subclasses(c):
                for f in s.methods.get(node.attr, []):
                    if f.kind in ("property", "cached_property") and f not in out:
                        out.append(f)
        return out

    def property_setters(self, node: ast.Attribute, ctx: Ctx) -> list[FunctionInfo]:
        bt = self.type_of(node.value, ctx)
        out = []
        for c in self.classes_of(bt):
            for k in self.P.mro(c):
                if node.attr in k.methods:
                    out.extend(f for f in k.methods[node.attr] if f.kind == "setter")
                    break
        return out
