#!/usr/bin/env python3
"""Driver: ``python3-vt check.py <property> --tier quick|thorough``.

Exit 0: every rule instance of the property holds on /repo's current tree
        (known findings are printed as KNOWN-FINDING lines).
Exit 1: at least one unlisted violation (one ``VIOLATION property=.. replay=..`` line each).
Exit 2: the analysis itself is broken (ANALYSIS-ERROR ...): vanished anchor,
        parse failure, instance count under its floor, canary that did not fire.
"""
from __future__ import annotations

import argparse
import importlib
import os
import sys
import traceback

HERE = os.path.dirname(os.path.abspath(__file__))
sys.path.insert(0, HERE)

from pstatic.model import AnalysisError  # noqa: E402
from pstatic.report import Report  # noqa: E402

PROPS = ["C01", "C02", "C03", "C04", "C05", "C06", "C07", "C08", "C09", "C10", "C11", "C12", "C13", "C15", "C16", "C17", "C18", "C19", "C20"]


def run_property(prop: str, tier: str, root: str | None = None, write: bool = True) -> int:
    from pstatic.engine import Engine

    seed = int(os.environ.get("VERIF_SEED", "0") or 0)
    rep = Report(prop, tier)
    try:
        mod = importlib.import_module(f"pstatic.rules.{prop.lower()}")
        E = Engine(root)
        extra = mod.run(E, rep, tier) or {}
        from pstatic import unused

        extra = {**extra, "unused": unused.check(E, rep, prop)}
        from pstatic import canaries

        canaries.run_for(prop, rep)
    except AnalysisError as e:
        rep.error(str(e))
        extra = {}
        mod = None
    except Exception:
        rep.error("internal error: " + traceback.format_exc().strip().splitlines()[-1])
        traceback.print_exc()
        extra = {}
        mod = None
    expl = getattr(mod, "EXPLANATION", "") if mod else "analysis failed"
    if mod:
        expl += (" NET (generic nets over the modules this property is anchored in, pstatic/unused.py): no parameter and no plainly assigned local that nothing reads "
                 "(frozen interface-conformance exceptions), no loop variable read after its loop beyond the confirmed sites, and every rejection over an array comparison is "
                 "existential (np.any(violation) / not np.all(requirement)); no public accessor returns a private attribute, an element of a private container, or a "
                 "module-level mutable table (or an entry of it) as it is unless the result is immutable (frozen exception tables), and no public member that is cached "
                 "(cached_property / lru_cache) returns a mutable object; no method keeps an array-like / container parameter in an attribute of self as it was given "
                 "(directly, through one local, or through wrappers that do not copy: AbstractArray, np.asarray, cast) outside a frozen exception table; an Optional limit whose value 0 is legal is tested with `is not None`, not by its truth value.")
    assum = getattr(mod, "ASSUMPTIONS", []) if mod else []
    return rep.finish(seed, extra, expl, assum)


def main() -> int:
    ap = argparse.ArgumentParser()
    ap.add_argument("prop", nargs="?")
    ap.add_argument("--tier", default=os.environ.get("VERIF_TIER", "quick"), choices=["quick", "thorough"])
    ap.add_argument("--root", default=None, help="analyse another checkout (self-tests only)")
    ap.add_argument("--selfcheck-fast", action="store_true")
    ap.add_argument("--replay", default=None)
    ap.add_argument("--all", action="store_true")
    a = ap.parse_args()
    if a.selfcheck_fast:
        from pstatic.engine import Engine

        try:
            E = Engine(a.root)
            print(f"setup ok: {len(E.P.modules)} modules, {len(E.P.classes)} classes, {len(E.P.functions)} functions, {len(E.P.schemas)} schemas")
            return 0
        except AnalysisError as e:
            print(f"ANALYSIS-ERROR {e}")
            return 2
    if a.replay:
        import json

        with open(a.replay) as f:
            r = json.load(f)
        print(json.dumps(r, indent=1))
        return run_property(r["property"], a.tier, a.root)
    if a.all:
        rc = 0
        for p in PROPS:
            if os.path.exists(os.path.join(HERE, "pstatic", "rules", p.lower() + ".py")):
                rc = max(rc, run_property(p, a.tier, a.root))
        return rc
    if not a.prop:
        ap.error("property id required")
    if a.tier == "thorough":
        from pstatic import selftest

        rc = run_property(a.prop, a.tier, a.root)
        if rc != 0:
            return rc
        return selftest.run_for(a.prop, a.tier)
    return run_property(a.prop, a.tier, a.root)


if __name__ == "__main__":
    try:
        sys.exit(main())
    except SystemExit:
        raise
    except BaseException:
        traceback.print_exc()
        print("ANALYSIS-ERROR driver crashed")
        sys.exit(2)
