"""C18 / strict switch_device of a parametrized sequence in EOM mode: an EOM
that controls more beams is accepted as "the same EOM configuration" even
when the EOM setpoint is parametrized, so that the detuning off is chosen
among MORE options at build time and the built samples change.
"""
import sys
import warnings

import numpy as np

from pulser import Register, Sequence
from pulser.channels import Rydberg
from pulser.channels.eom import RydbergBeam, RydbergEOM
from pulser.devices import VirtualDevice
from pulser.sampler import sample

warnings.simplefilter("ignore")

reg = Register.square(2, 6, prefix="q")


def device(name, controlled_beams, multiple_beam_control):
    eom = RydbergEOM(
        mod_bandwidth=24,
        limiting_beam=RydbergBeam.RED,
        max_limiting_amp=40 * 2 * np.pi,
        intermediate_detuning=700 * 2 * np.pi,
        controlled_beams=controlled_beams,
        multiple_beam_control=multiple_beam_control,
    )
    return VirtualDevice(
        name=name,
        dimensions=2,
        rydberg_level=60,
        channel_objects=(
            Rydberg.Global(None, None, mod_bandwidth=4, eom_config=eom),
        ),
    )


dev_a = device("A", (RydbergBeam.RED,), True)
failed = False
for mbc in (True, False):
    dev_b = device("B", (RydbergBeam.BLUE, RydbergBeam.RED), mbc)
    seq = Sequence(reg, dev_a)
    seq.declare_channel("ryd", "rydberg_global")
    amp = seq.declare_variable("amp", dtype=float)
    seq.enable_eom_mode("ryd", amp_on=amp, detuning_on=0.0)
    seq.add_eom_pulse("ryd", 100, 0.0)
    seq.delay(100, "ryd")
    seq.add_eom_pulse("ryd", 100, 0.0)
    seq.disable_eom_mode("ryd")
    label = f"new EOM controls both beams, multiple_beam_control={mbc}"
    try:
        new_seq = seq.switch_device(dev_b, strict=True)
    except Exception as e:  # raising is allowed by the property
        print(f"[{label}] raised {type(e).__name__}: {e}")
        continue
    old, new = seq.build(amp=5.0), new_seq.build(amp=5.0)
    old_det = sample(old).channel_samples["ryd"].det
    new_det = sample(new).channel_samples["ryd"].det
    same = old_det.shape == new_det.shape and np.allclose(old_det, new_det)
    print(
        f"[{label}] strict switch returned; after build(amp=5) the detuning "
        f"between the EOM pulses is {float(old_det[150])} -> "
        f"{float(new_det[150])}"
    )
    failed |= not same

if failed:
    print("FAIL: strict=True returned a sequence that builds other samples")
    sys.exit(1)
print("PASS")
