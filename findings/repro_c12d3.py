"""C12 / finding 3: Register.max_connectivity(n, device, spacing) is the
device-aware constructor ("device: The device whose constraints must be
obeyed").  It checks the number of atoms and the spacing against the device
but never the maximum radial distance, so it silently returns registers that
the same device rejects.
"""
import sys
import warnings

import numpy as np

from pulser import Register, Sequence
from pulser.devices import AnalogDevice, Device

warnings.simplefilter("ignore")
failures = []

small = Device(
    name="SmallFieldOfView",
    dimensions=2,
    rydberg_level=60,
    min_atom_distance=5,
    max_atom_num=100,
    max_radial_distance=20,
)
cases = [
    # n_qubits <= max_atom_num (80), spacing >= min_atom_distance (5 um)
    ("AnalogDevice, n=80, spacing=9", AnalogDevice, 80, 9.0),
    ("AnalogDevice, n=61, spacing=10", AnalogDevice, 61, 10.0),
    # default spacing (= the device's minimum distance)
    ("custom device, n=100, default spacing", small, 100, None),
    ("custom device, n=62, default spacing", small, 62, None),
]
for label, dev, n, spacing in cases:
    try:
        reg = Register.max_connectivity(n, dev, spacing=spacing, prefix="q")
    except ValueError:
        # Refusing to build a register that cannot fit is fine
        continue
    try:
        dev.validate_register(reg)
        Sequence(reg, dev)
    except ValueError as e:
        r = np.linalg.norm(reg.sorted_coords, axis=1).max()
        failures.append(
            f"{label}: max_connectivity returned a register (furthest atom "
            f"at {r:.2f} um) that the device rejects: {type(e).__name__}: "
            f"{str(e)[:110]}..."
        )

# Registers that do fit must of course still be produced and accepted
for dev, n, spacing in [(AnalogDevice, 80, None), (AnalogDevice, 61, 9.0),
                        (small, 61, None)]:
    reg = Register.max_connectivity(n, dev, spacing=spacing, prefix="q")
    dev.validate_register(reg)
    assert len(reg.qubit_ids) == n

if failures:
    print("FAIL")
    for f in failures:
        print(" -", f)
    sys.exit(1)
print("PASS")
