"""C11: an observable evaluated at the end of the sequence (relative time 1.0) was refused for many durations.

QutipConfig._get_legacy_evaluation_times converts relative times with `rel * total_duration_ns * 1e-3`, while
QutipEmulator.set_evaluation_times bounded them by `self._tot_duration / 1000` (and results were given the
relative time `t / self._tot_duration * 1e3`).  x * 1e-3 and x / 1000 differ in the last bit for about one
duration in seven, so the final time was "further than sequence duration".
Found by rule UNIT (pstatic/rules/c11.py).  Exits 1 when the defect is present.
"""
import sys

from pulser import Pulse, Register, Sequence
from pulser.backend import StateResult
from pulser.devices import MockDevice
from pulser_simulation import QutipBackendV2, QutipConfig

reg = Register({"q0": (0, 0)})
bad = []
for total in range(16, 1500, 7):
    seq = Sequence(reg, MockDevice)
    seq.declare_channel("ch", "rydberg_global")
    seq.add(Pulse.ConstantPulse(total, 1.0, 0.0, 0.0), "ch")
    cfg = QutipConfig(observables=[StateResult(evaluation_times=[1.0])])
    try:
        QutipBackendV2(seq, config=cfg)
    except ValueError as e:
        bad.append((total, str(e)[:60]))
if bad:
    print(f"DEFECT: {len(bad)} of {len(range(16, 1500, 7))} sequence durations refuse an observable at relative time 1.0, e.g. {bad[0]}")
    sys.exit(1)
# the final result carries relative time exactly 1.0
seq = Sequence(reg, MockDevice)
seq.declare_channel("ch", "rydberg_global")
seq.add(Pulse.ConstantPulse(51, 1.0, 0.0, 0.0), "ch")
res = QutipBackendV2(seq, config=QutipConfig(observables=[StateResult(evaluation_times=[1.0])])).run()
times = res.get_result_times("state")
assert times == [1.0], times
print("ok: every duration accepts an observable at the end of the sequence; it is stored at time 1.0")
