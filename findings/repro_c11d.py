"""C11: "Full" evaluation times ended with two entries one ulp apart (regression of fix 7eb388dd).

The sampling grid is np.arange(n) / 1000 (Hamiltonian.__init__).  After 7eb388dd the end of the sequence was written
self._tot_duration * 1e-3 everywhere in QutipEmulator; for about one duration in seven T / 1000 != T * 1e-3, so
np.union1d(<grid>, [0, T * 1e-3]) kept both values: evaluation_times="Full" produced a spurious extra time, and the
V2 backend stored an extra state at relative time 0.9999999999999998.  The consistent idiom is the grid's own
division, at every site (emulator and QutipConfig._get_legacy_evaluation_times).
Found by rule UNIT once the sampling grid became its reference (pstatic/rules/c11.py).  Exits 1 when present.
"""
import sys
import warnings

import numpy as np
from pulser import Pulse, Register, Sequence
from pulser.backend import StateResult
from pulser.devices import MockDevice
from pulser_simulation import QutipBackendV2, QutipConfig, QutipEmulator

warnings.filterwarnings("ignore")
bad = []
for T in list(range(20, 120)) + [700]:
    seq = Sequence(Register({"q0": (0, 0)}), MockDevice)
    seq.declare_channel("ch", "rydberg_global")
    seq.add(Pulse.ConstantPulse(T, 1.0, 0.0, 0.0), "ch")
    et = QutipEmulator.from_sequence(seq, evaluation_times="Full")._eval_times_array
    if np.diff(et).min() < 1e-9:
        bad.append((T, "emulator", et[-2:].tolist()))
    if T in (36, 52, 72, 104, 700, 51):
        res = QutipBackendV2(seq, config=QutipConfig(observables=[StateResult(evaluation_times=[1.0])], default_evaluation_times="Full")).run()
        ts = res.get_result_times("state")
        if len(ts) != len(set(np.round(ts, 9))):
            bad.append((T, "v2", [float(x) for x in ts[-2:]]))
if bad:
    print(f"DEFECT PRESENT: {len(bad)} cases, e.g. {bad[:3]}")
    sys.exit(1)
print("ok: 'Full' evaluation times hold the end of the sequence once; relative time 1.0 is stored once")
