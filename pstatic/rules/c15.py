"""C15 -- EOM mode: square pulses, physical off-detuning, buffers."""
from __future__ import annotations

import ast

from ..absval import abstractor
from ..engine import CHS, SCHED, SEQ, Engine
from ..model import AnalysisError, dotted, norm
from ..report import Report
from .common import arg_of, av, calls_to, one_call, own_nodes, returns

EXPLANATION = (
    "FLOW: the pulse built by add_eom_pulse takes amplitude and detuning from eom_blocks[-1].rabi_freq/.detuning_on of the channel; the detuned delay in add_delay and the buffer pulse in enable_eom take "
    "detuning_off of the same (last) block; _EOMSettings is filled from the arguments in the matching slots; calculate_detuning_off returns options[argmin(|options - optimum|)] and the switching beams are "
    "indexed with the same index; detuning_off_options iterates the same _switching_beams_combos list that the beams lookup uses; enable_eom waits for the fall time and then adds a buffer of "
    "adjust_duration(_eom_buffer_time) unless told to skip; disable_eom closes the block at the current end and buffers with the custom buffer time if defined, else waits for the fall; "
    "_eom_buffer_time = custom_buffer_time or 2*rise_time; Sequence.enable/modify record what _process_eom_parameters computed (C04). "
    "NOT decided: the drift-correction populations (emulator physics)."
)
ASSUMPTIONS = ["def-use provenance inside one function"]

EOM = "pulser.channels.eom.RydbergEOM"
CH = "pulser.channels.base_channel.Channel"


def run(E: Engine, rep: Report, tier: str) -> dict:
    # ------------------------------------------------------ add_eom_pulse
    aep = E.method(SEQ, "add_eom_pulse")
    pulse_ctor = None
    for n in own_nodes(aep):
        if isinstance(n, ast.Call) and (dotted(n.func) or "") == "Pulse.ConstantPulse":
            pulse_ctor = n
    if pulse_ctor is None:
        raise AnalysisError("anchor: add_eom_pulse no longer builds a Pulse.ConstantPulse")
    a_amp, a_det = av(E, aep, pulse_ctor.args[1]), av(E, aep, pulse_ctor.args[2])
    w = E.where(aep, pulse_ctor)
    rep.check(any(r.endswith("eom_blocks.rabi_freq") for r in a_amp.roots) and "idx:-1" in a_amp.tags and not any(r.endswith(("detuning_on", "detuning_off")) for r in a_amp.roots), "FLOW", "add_eom_pulse|amplitude=current-block.rabi_freq", "EOM pulse amplitude = rabi_freq of the open block", f"EOM pulse amplitude provenance: {a_amp.show()[:160]}", w)
    rep.check(any(r.endswith("eom_blocks.detuning_on") for r in a_det.roots) and "idx:-1" in a_det.tags and not any(r.endswith(("rabi_freq", "detuning_off")) for r in a_det.roots), "FLOW", "add_eom_pulse|detuning=current-block.detuning_on", "EOM pulse detuning = detuning_on of the open block", f"EOM pulse detuning provenance: {a_det.show()[:160]}", w)
    a_dur = av(E, aep, pulse_ctor.args[0])
    rep.check("duration" in a_dur.roots, "FLOW", "add_eom_pulse|duration-from-argument", "duration is the requested one", "EOM pulse duration no longer comes from the argument", w)
    # same channel for the block and for the add
    addc = one_call(E, aep, E.method(SEQ, "_add"))
    rep.check(norm(addc.args[1]) == "channel" and "self._schedule[channel].eom_blocks[-1]" in norm(aep.node), "FLOW", "add_eom_pulse|same-channel", "block read and pulse added on the same channel", "add_eom_pulse reads the EOM block of a different channel than the one it adds to", E.where(aep, addc))
    # ------------------------------------------------- add_delay (detuned)
    ad = E.method(SCHED, "add_delay")
    for n in own_nodes(ad):
        if isinstance(n, ast.Call) and (dotted(n.func) or "") == "Pulse.ConstantPulse":
            d = av(E, ad, n.args[2])
            rep.check(any(r.endswith("eom_blocks.detuning_off") for r in d.roots) and "idx:-1" in d.tags, "FLOW", "add_delay|detuned-delay=block.detuning_off", "idle detuning in EOM mode = detuning_off of the open block", f"detuned delay detuning provenance: {d.show()[:160]}", E.where(ad, n))
            rep.check(isinstance(n.args[1], ast.Constant) and float(n.args[1].value) == 0.0, "FLOW", "add_delay|detuned-delay-zero-amplitude", "zero amplitude", "detuned delay has non-zero amplitude", E.where(ad, n))
    ok = False
    for n in own_nodes(ad):
        if isinstance(n, ast.If) and "in_eom_mode()" in norm(n.test) and "detuning_off != 0" in norm(n.test):
            ok = True
    rep.check(ok, "FLOW", "add_delay|detuned-iff-in-eom-and-nonzero-off", "delay is a detuned pulse iff in EOM mode with non-zero detuning_off", "the condition for a detuned delay changed", E.where(ad))
    # ----------------------------------------------------------- enable_eom
    en = E.method(SCHED, "enable_eom")
    ctor = None
    for n in own_nodes(en):
        if isinstance(n, ast.Call) and (dotted(n.func) or "") == "_EOMSettings":
            ctor = n
    if ctor is None:
        raise AnalysisError("anchor: enable_eom no longer builds _EOMSettings")
    kws = {k.arg: norm(k.value) for k in ctor.keywords}
    want = {"rabi_freq": "amp_on", "detuning_on": "detuning_on", "detuning_off": "detuning_off", "switching_beams": "switching_beams"}
    rep.check(all(kws.get(k) == v for k, v in want.items()), "FLOW", "enable_eom|settings-slots", "rabi_freq<-amp_on, detuning_on<-detuning_on, detuning_off<-detuning_off", f"_EOMSettings is filled as {kws}: a parameter landed in the wrong slot", E.where(en, ctor))
    rep.check(kws.get("ti", "").replace(" ", "") == "self[channel_id][-1].tf", "FLOW", "enable_eom|block-starts-at-current-end", "block starts at the channel's current end (after the buffer)", f"EOM block start is {kws.get('ti')}", E.where(en, ctor))
    # buffer pulse uses detuning_off; duration adjusted
    for n in own_nodes(en):
        if isinstance(n, ast.Call) and (dotted(n.func) or "") == "Pulse.ConstantPulse":
            rep.check(norm(n.args[2]) == "detuning_off" and any(r.endswith("adjust_duration()") for r in av(E, en, n.args[0]).roots), "FLOW", "enable_eom|buffer=detuning_off,adjusted", "buffer pulse: adjusted _eom_buffer_time at detuning_off", f"buffer pulse is {norm(n)[:100]}", E.where(en, n))
    v_buf = None
    for n in own_nodes(en):
        if isinstance(n, ast.Assign) and norm(n.targets[0]) == "eom_buffer_time":
            v_buf = av(E, en, n.value)
    rep.check(v_buf is not None and any(r.endswith("._eom_buffer_time") for r in v_buf.roots) and any(r.endswith("adjust_duration()") for r in v_buf.roots), "FLOW", "enable_eom|buffer-time=adjust(_eom_buffer_time)", "buffer = adjust_duration(channel._eom_buffer_time)", "enable_eom's buffer no longer derives from _eom_buffer_time through adjust_duration", E.where(en))
    wf = E.method(SCHED, "wait_for_fall")
    ab = abstractor(E.flow(en))
    cs = calls_to(E, en, wf)
    ok = False
    for _n, e in cs:
        dnf = ab.enclosing_conditions(e.node)
        txt = [" AND ".join(l.show() for l in c) for c in dnf]
        ok = all("_skip_buffer" in t and "_skip_wait_for_fall" in t for t in txt)
    rep.check(bool(cs) and ok, "FLOW", "enable_eom|waits-for-fall-unless-skipped", "waits for the previous pulse to ramp down unless _skip_buffer/_skip_wait_for_fall", "enable_eom no longer waits for the fall time before the buffer (or the skip flags changed)", E.where(en))
    # ---------------------------------------------------------- disable_eom
    de = E.method(SCHED, "disable_eom")
    ok = False
    for n in own_nodes(de):
        if isinstance(n, ast.Assign) and norm(n.targets[0]).replace(" ", "") == "self[channel_id].eom_blocks[-1].tf":
            ok = norm(n.value).replace(" ", "") == "self[channel_id][-1].tf"
    rep.check(ok, "FLOW", "disable_eom|block-closed-at-current-end", "eom_blocks[-1].tf = current end", "disable_eom no longer closes the block at the channel's current end", E.where(de))
    ok = False
    for n in own_nodes(de):
        if isinstance(n, ast.If) and "custom_buffer_time" in norm(n.test):
            body, orelse = norm(ast.Module(body=n.body, type_ignores=[])), norm(ast.Module(body=n.orelse, type_ignores=[]))
            ok = "add_delay" in body and "_eom_buffer_time" in body and "wait_for_fall" in orelse
    rep.check(ok, "FLOW", "disable_eom|buffer-iff-custom-else-wait", "custom buffer delay if configured, else wait for the fall time", "disable_eom's buffering branches changed", E.where(de))
    # _eom_buffer_time
    bt = [f for f in E.cls(CH).methods["_eom_buffer_time"] if f.kind == "property"][0]
    v = av(E, bt, returns(bt)[0].value)
    rep.check(any(r.endswith("custom_buffer_time") for r in v.roots) and "self.rise_time" in v.roots and "const:2" in v.roots and "Or" in v.tags, "FLOW", "Channel._eom_buffer_time|custom-or-2*rise_time", "custom_buffer_time or 2*rise_time", "_eom_buffer_time is no longer `custom_buffer_time or 2*rise_time`", E.where(bt))
    # ------------------------------------------------ calculate_detuning_off
    cdo = [f for f in E.cls(EOM).methods["calculate_detuning_off"] if f.kind != "overload"][0]
    src_nodes = list(own_nodes(cdo))
    idx_name = None
    for n in src_nodes:
        if isinstance(n, ast.Assign) and isinstance(n.value, ast.Call) and isinstance(n.value.func, ast.Attribute) and n.value.func.attr == "argmin":
            inner = n.value.func.value
            ok = isinstance(inner, ast.Call) and (dotted(inner.func) or "").endswith("abs") and isinstance(inner.args[0], ast.BinOp) and isinstance(inner.args[0].op, ast.Sub) and "optimal_detuning_off" in norm(inner.args[0]) and "off_options" in norm(inner.args[0])
            idx_name = n.targets[0].id if isinstance(n.targets[0], ast.Name) else None
            rep.check(ok, "FLOW", "calculate_detuning_off|argmin-abs-distance", "index = argmin(|options - optimum|)", f"closest option computed as {norm(n.value)[:100]}", E.where(cdo, n))
    if idx_name is None:
        rep.violation("FLOW", "calculate_detuning_off|argmin-abs-distance", "no argmin over |options - optimum| found", E.where(cdo))
    else:
        uses = [norm(n) for n in src_nodes if isinstance(n, ast.Subscript) and norm(n.slice) == idx_name]
        rep.check(any(u.startswith("off_options[") for u in uses) and any(u.startswith("self._switching_beams_combos[") for u in uses), "FLOW", "calculate_detuning_off|same-index-for-beams", "detuning and switching beams picked with the same index", f"the closest-option index is used for {uses}: detuning_off and switching beams could come from different options", E.where(cdo))
    doo = [f for f in E.cls(EOM).methods["detuning_off_options"]][0]
    ok = any(isinstance(n, ast.For) and norm(n.iter) == "self._switching_beams_combos" for n in own_nodes(doo))
    rep.check(ok, "FLOW", "detuning_off_options|iterates-_switching_beams_combos", "options enumerated in the order of _switching_beams_combos", "detuning_off_options no longer iterates _switching_beams_combos (index correspondence with the beams lookup lost)", E.where(doo))
    ok = any(isinstance(n, ast.BinOp) and isinstance(n.op, ast.Sub) and norm(n.left) == "all_beams" and "beams_off" in norm(n.right) for n in own_nodes(doo))
    rep.check(ok, "FLOW", "detuning_off_options|beams_on=all-beams_off", "beams left on = all beams minus the switched-off ones", "the set of beams contributing to the light shift is no longer all_beams - beams_off", E.where(doo))
    # Sequence level: enable passes the computed values to the scheduler
    for nm in ("enable_eom_mode", "modify_eom_setpoint"):
        m = E.method(SEQ, nm)
        c = one_call(E, m, en)
        a = [av(E, m, x) for x in c.args[1:4]]
        ok = "amp_on" in a[0].roots and "detuning_on" in a[1].roots and any("_process_eom_parameters()" in r for r in a[2].roots) and "detuning_on" not in a[0].roots and "amp_on" not in a[1].roots
        rep.check(ok, "FLOW", f"Sequence.{nm}|passes-setpoint-to-scheduler", "(amp_on, detuning_on, computed detuning_off) handed to the scheduler in that order", f"{nm} hands {[norm(x) for x in c.args[1:4]]} to _Schedule.enable_eom", E.where(m, c))
    rep.floor("FLOW", 20)
    return {}
