"""C03 finding 2: align() does not make the channels end together when the
gap to fill is shorter than a channel's minimum duration (or not a multiple of
its clock period).

On DigitalAnalogDevice (min_duration=16 ns, clock_period=4 ns on every
channel) channel "a" ends at 200 and channel "b" ends at 204. After
align("a", "b") the channels must end at the same instant.
"""
import sys
import warnings

from pulser import Pulse, Register, Sequence
from pulser.devices import DigitalAnalogDevice

warnings.simplefilter("ignore")

failed = False
for at_rest in (True, False):
    seq = Sequence(Register.square(2, spacing=6, prefix="q"), DigitalAnalogDevice)
    seq.declare_channel("a", "rydberg_global")
    seq.declare_channel("b", "raman_local", initial_target="q0")
    seq.add(Pulse.ConstantPulse(200, 1, 0, 0), "a")
    seq.add(Pulse.ConstantPulse(204, 1, 0, 0), "b", protocol="no-delay")
    before = (seq.get_duration("a"), seq.get_duration("b"))
    seq.align("a", "b", at_rest=at_rest)
    after = (seq.get_duration("a"), seq.get_duration("b"))
    # The next pulses added to the aligned channels should start together
    seq.add(Pulse.ConstantPulse(100, 1, 0, 0), "a", protocol="no-delay")
    seq.add(Pulse.ConstantPulse(100, 1, 0, 0), "b", protocol="no-delay")
    starts = (seq._schedule["a"][-1].ti, seq._schedule["b"][-1].ti)
    ok = after[0] == after[1] and after[0] >= max(before)
    print(
        f"at_rest={at_rest}: ends before align {before}, after align {after},"
        f" next pulses start at {starts} -> "
        f"{'ok' if ok else 'NOT ALIGNED'}"
    )
    failed |= not ok

print("FAIL" if failed else "PASS")
sys.exit(1 if failed else 0)
