"""NET rules (generic nets run for every property over its anchor modules): UNUSED -- a parameter (or a plainly
assigned local) that nothing reads; LEAK -- a loop variable read after its loop; QUANT -- existential rejections.

Across the 88 modules of this repository, 16 of 1912 parameters and 8 locals are never read, all for interface
conformance (``**kwargs`` of Observable.apply, ``__exit__`` arguments, ...); they are frozen below with a reason.
A *new* unread parameter or local is what is left behind when a value stops being forwarded (a dropped argument, a
wrong variable used in its place): the function still accepts / computes it, and silently ignores it.  Decided from
the syntax tree: every Name load in the function (nested functions included) counts as a read.
"""
from __future__ import annotations

import ast
import json
import os

from .engine import Engine
from .report import Report

PARAM_EXCEPTIONS = {
    "StateResult.apply|kwargs": "interface: Observable.apply(**kwargs) accepts what other observables need",
    "BitStrings.apply|kwargs": "interface: Observable.apply(**kwargs)",
    "Fidelity.apply|kwargs": "interface: Observable.apply(**kwargs)",
    "Expectation.apply|kwargs": "interface: Observable.apply(**kwargs)",
    "CorrelationMatrix.apply|kwargs": "interface: Observable.apply(**kwargs)",
    "Occupation.apply|kwargs": "interface: Observable.apply(**kwargs)",
    "Energy.apply|kwargs": "interface: Observable.apply(**kwargs)",
    "EnergyVariance.apply|kwargs": "interface: Observable.apply(**kwargs)",
    "EnergySecondMoment.apply|kwargs": "interface: Observable.apply(**kwargs)",
    "OperatorRepr._from_operator_repr|eigenstates": "interface: Operator._from_operator_repr; the backend-independent representation keeps only the operations",
    "OperatorRepr._from_operator_repr|n_qudits": "interface: Operator._from_operator_repr",
    "_OpenBatchContextManager.__exit__|exc_type": "context-manager protocol",
    "_OpenBatchContextManager.__exit__|exc_value": "context-manager protocol",
    "_OpenBatchContextManager.__exit__|traceback": "context-manager protocol",
    "RegDrawer._draw_checks|draw_graph": "kept for signature compatibility of the drawing helpers",
    "_draw_channel_content|draw_detuning_maps": "kept for signature compatibility of the drawing helpers",
}
LOCAL_EXCEPTIONS = {
    "Waveform.draw|fig": "matplotlib idiom: fig, ax = plt.subplots()",
    "Operator._validate_operations|coeff": "unpacked for readability",
    "RegisterLayout.draw|fig": "matplotlib idiom",
    "draw_samples|ch_axes": "drawing code",
    "switch_device.raise_error_non_matching_channel|old_ch_obj": "left-over local, harmless",
    "Hamiltonian._build_operator|j": "loop bookkeeping",
    "QutipBackendV2.run|index": "enumerate index not needed",
    "QutipOperator._from_operator_repr|tensor_op_num": "enumerate index not needed",
}


# reads of a `for` target after its loop ended (the value left over from the last iteration): function|name -> number
# of such reads confirmed by reading the code
LEAK_ALLOWED = {
    "Channel.Local|cls_field": (2, "search loop with break: the field named 'addressing'"),
    "Channel.Global|cls_field": (2, "search loop with break: the field named 'addressing'"),
    "ChannelSamples.modulate|block": (2, "deliberately the last EOM block: `block.tf is None` <=> the sequence ends in EOM mode"),
    "Sequence._set_slm_mask_dmm|key": (1, "search loop with break: the DMM name that was just declared"),
}


# public methods / properties that return one of the object's private attributes as it is (no copy, no conversion):
# confirmed by reading that the attribute is immutable (number, string, tuple, frozen object) or deliberately shared
DIRECT_RETURN_ALLOWED = {
    "ConstantWaveform.duration": "int", "RampWaveform.duration": "int", "BlackmanWaveform.duration": "int", "InterpolatedWaveform.duration": "int",
    "KaiserWaveform.duration": "int", "CustomWaveform.duration": "int", "CompositeWaveform.duration": "int",
    "InterpolatedWaveform.interp_function": "the interpolator object (callable, not edited by callers)",
    "Callback.uuid": "str", "Observable.tag": "str", "StateRepr.n_qudits": "int",
    "RemoteResults.results": "tuple of results", "RemoteResults.batch_id": "str", "RemoteResults.job_ids": "list kept by the remote handle (not part of the claimed properties)",
    "ParamObj.variables": "internal protocol of Parametrized (read by the owning sequence only)", "ParamObj.build": "the built instance is the result",
    "BaseRegister.qubit_ids": "tuple", "MappableRegister.qubit_ids": "tuple", "MappableRegister.layout": "frozen RegisterLayout",
    "ChannelSamples.centered_phase": "bool", "Sequence.device": "frozen device", "Sequence.register": "register (immutable API)",
    "Hamiltonian.config": "NoiseModel (frozen dataclass)", "QutipEmulator.total_duration_ns": "int", "QutipEmulator.initial_state": "qutip.Qobj handed back as stored",
}


def anchor_modules(E: Engine, pid: str) -> set:
    """Module names of the files the property is anchored in (properties.jsonl)."""
    here = os.path.dirname(os.path.dirname(os.path.abspath(__file__)))
    files: set = set()
    for line in open(os.path.join(here, "properties.jsonl"), encoding="utf-8"):
        d = json.loads(line)
        if d["id"] == pid:
            files = set(d["anchors"]["files"])
    return {m.name for m in E.P.modules.values() if m.relpath in files}


# (`tf`: the end of an EOM block, `int | None` -- None means "still open", 0 is a block closed at the start of the channel)
ZERO_LEGAL_LIMITS = {"bottom_detuning", "total_bottom_detuning", "fixed_retarget_t", "min_retarget_interval", "max_abs_detuning", "max_amp", "tf"}
ZERO_TRUTHY_ALLOWED = {
    "_Schedule.add_target|fixed_retarget_t": "`if fixed_retarget_t: delta = max(delta, fixed_retarget_t)`: for 0 the skipped statement is max(delta, 0) == delta (delta >= 0), the same result",
    "Channel.__str__|max_abs_detuning": "text only: the unit suffix of the printed limit",
    "Channel.__str__|max_amp": "text only: the unit suffix of the printed limit",
    "DMM.__post_init__|bottom_detuning": "`x and x > 0`: 0 is not > 0, the verdict is the same with `is not None`",
    "DMM.__post_init__|total_bottom_detuning": "`x and x > 0`: 0 is not > 0, the verdict is the same with `is not None`",
}
STORED_ALLOWED = {
    "AbstractArray.__init__|_array": "the wrapper itself: AbstractArray is documented as a view over the given array (callers that must own their data copy it)",
    "Observable.__init__|evaluation_times": "a caller-given sequence of relative times kept by reference and only read (membership / iteration); documented as Sequence[float]",
    "State.__init__|_eigenstates": "labels (strings) of the basis, normally a tuple; only read",
    "QutipOperator.__init__|_eigenstates": "labels (strings) of the basis, normally a tuple; only read",
    "Operator.from_operator_repr|_eigenstates": "labels (strings) of the basis, normally a tuple; only read (kept for serialisation)",
    "RemoteResults.__init__|_job_ids": "remote handle, not part of the claimed properties",
    "QutipEmulator.set_evaluation_times|_eval_times_instruction": "kept only for repr / later comparison; the evaluation times actually used are computed (copied) in the same call",
    "SimulationResults.__init__|_sim_times": "internal constructor: called by the emulator with a freshly built array",
    "CoherentResults.__init__|_meas_errors": "internal constructor: called by the emulator with a freshly built mapping",
}


def _mutable_param_annotation(ann: str) -> bool:
    """The annotation admits an array / container the caller may go on editing (not a mere class named Sequence...)."""
    import re as _re

    if not ann:
        return False
    return bool(_re.search(r"\b(ArrayLike|TensorLike|AbstractArrayLike|ndarray|AbstractArray)\b", ann) or _re.search(r"\b(list|List|dict|Dict|set|Set|Sequence|Collection|Mapping|Iterable|MutableMapping|MutableSequence)\[", ann))


GLOBAL_RETURN_ALLOWED = {
    "SimConfig.supported_noises": "legacy SimConfig: the table of supported noise types is only read (set difference) by its single internal caller; not part of a claimed property",
}


def _module_table(E: Engine, m, name: str):
    """The literal assigned to the UPPER_CASE module-level name (followed through one `from x import NAME`)."""
    for mod in [m] + [E.P.modules[k] for k in E.P.modules if k != m.name]:
        val = mod.assigns.get(name) if hasattr(mod, "assigns") else None
        if val is not None and isinstance(val, (ast.List, ast.Dict, ast.Set, ast.ListComp, ast.DictComp, ast.SetComp)):
            if mod is m or m.imports.get(name, "").rsplit(".", 1)[0] == mod.name:
                return val
    return None


_IMMUTABLE_HEADS = {"int", "float", "bool", "str", "bytes", "complex", "tuple", "Tuple", "frozenset", "None", "Literal"}


def _immutable_annotation(ann: str) -> bool:
    """Every alternative of the (possibly Optional / union) annotation has an immutable head type."""
    if not ann:
        return False
    try:
        node = ast.parse(ann, mode="eval").body
    except SyntaxError:
        return False
    alts, todo = [], [node]
    while todo:
        n = todo.pop()
        if isinstance(n, ast.BinOp) and isinstance(n.op, ast.BitOr):
            todo += [n.left, n.right]
        elif isinstance(n, ast.Subscript) and ast.unparse(n.value).split(".")[-1] in ("Optional", "Union"):
            todo += list(n.slice.elts) if isinstance(n.slice, ast.Tuple) else [n.slice]
        else:
            alts.append(n)
    for n in alts:
        head = n.value if isinstance(n, ast.Subscript) else n
        name = ast.unparse(head).split(".")[-1] if not isinstance(head, ast.Constant) else str(head.value)
        if name not in _IMMUTABLE_HEADS:
            return False
    return True


def _is_stub(f) -> bool:
    real = [st for st in f.node.body if not (isinstance(st, ast.Expr) and isinstance(st.value, ast.Constant))]
    if not real or all(isinstance(st, (ast.Pass, ast.Raise)) for st in real):
        return True
    return any("abstractmethod" in ast.unparse(d) for d in f.node.decorator_list)


def check(E: Engine, rep: Report, pid: str, rule: str = "NET", extra_modules: tuple = ()) -> dict:
    mods = anchor_modules(E, pid) | set(extra_modules)
    n_par = n_loc = 0
    for f in E.P.all_functions():
        if f.kind == "overload" or f.module.name not in mods or _is_stub(f):
            continue
        a = f.node.args
        params = [x.arg for x in a.posonlyargs + a.args + a.kwonlyargs] + ([a.vararg.arg] if a.vararg else []) + ([a.kwarg.arg] if a.kwarg else [])
        loads = {x.id for x in ast.walk(f.node) if isinstance(x, ast.Name) and isinstance(x.ctx, (ast.Load, ast.Del))}
        for x in ast.walk(f.node):
            if isinstance(x, (ast.Global, ast.Nonlocal)):
                loads |= set(x.names)
        for p in params:
            if p in ("self", "cls") or p.startswith("_"):
                continue
            n_par += 1
            key = f"{f.short}|{p}"
            if p in loads:
                continue
            if key in PARAM_EXCEPTIONS:
                rep.excepted(rule, key + "|parameter-is-read", PARAM_EXCEPTIONS[key], E.where(f))
            else:
                rep.violation(rule, key + "|parameter-is-read", f"{f.short} accepts the parameter `{p}` but never reads it: the value a caller passes is silently ignored (an argument that stopped being forwarded, or another variable used in its place)", E.where(f))
        # plainly assigned locals (not loop / with / unpacking targets) that nothing reads
        own_stores: dict = {}
        stack = list(f.node.body)
        while stack:
            st = stack.pop()
            if isinstance(st, (ast.FunctionDef, ast.AsyncFunctionDef, ast.ClassDef)):
                continue
            if isinstance(st, ast.Assign) and len(st.targets) == 1 and isinstance(st.targets[0], ast.Name):
                own_stores.setdefault(st.targets[0].id, st)
            elif isinstance(st, ast.AnnAssign) and st.value is not None and isinstance(st.target, ast.Name):
                own_stores.setdefault(st.target.id, st)
            for ch in ast.iter_child_nodes(st):
                if isinstance(ch, ast.stmt):
                    stack.append(ch)
                elif isinstance(ch, (ast.ExceptHandler, ast.match_case)):
                    stack.extend(x for x in ast.iter_child_nodes(ch) if isinstance(x, ast.stmt))
        for nm, st in own_stores.items():
            if nm.startswith("_") or nm in params:
                continue
            n_loc += 1
            key = f"{f.short}|{nm}"
            if nm in loads:
                continue
            if key in LOCAL_EXCEPTIONS:
                rep.excepted(rule, key + "|local-is-read", LOCAL_EXCEPTIONS[key], E.where(f, st))
            else:
                rep.violation(rule, key + "|local-is-read", f"{f.short} computes `{nm}` (`{ast.unparse(st)[:70]}`) and never reads it: the value was meant to reach a later statement (dropped argument / wrong variable)", E.where(f, st))
    # LEAK: a loop variable read after its loop holds whatever the last iteration left in it
    n_leak = 0
    for f in E.P.all_functions():
        if f.kind == "overload" or f.module.name not in mods:
            continue
        counts: dict = {}
        first: dict = {}
        # names bound by a comprehension are its own: reads inside it are not reads of an outer loop variable
        comp_bound: set = set()
        for cmp_ in ast.walk(f.node):
            if isinstance(cmp_, (ast.ListComp, ast.SetComp, ast.DictComp, ast.GeneratorExp)):
                bound = {y.id for g_ in cmp_.generators for y in ast.walk(g_.target) if isinstance(y, ast.Name)}
                for y in ast.walk(cmp_):
                    if isinstance(y, ast.Name) and y.id in bound:
                        comp_bound.add(id(y))
        for lp in [x for x in ast.walk(f.node) if isinstance(x, ast.For)]:
            for nm in {y.id for y in ast.walk(lp.target) if isinstance(y, ast.Name)}:
                stores = [y.lineno for y in ast.walk(f.node) if isinstance(y, ast.Name) and y.id == nm and isinstance(y.ctx, ast.Store)]
                for y in ast.walk(f.node):
                    if isinstance(y, ast.Name) and y.id == nm and isinstance(y.ctx, ast.Load) and id(y) not in comp_bound and y.lineno > lp.end_lineno and not any(lp.end_lineno < s_ <= y.lineno for s_ in stores):
                        counts[nm] = counts.get(nm, 0) + 1
                        first.setdefault(nm, y)
        for nm, c_ in counts.items():
            n_leak += 1
            key = f"{f.short}|{nm}"
            allowed = LEAK_ALLOWED.get(key)
            if allowed is not None and c_ <= allowed[0]:
                rep.excepted(rule, key + "|loop-variable-read-after-loop", allowed[1], E.where(f, first[nm]))
            else:
                rep.violation(rule, key + "|loop-variable-read-after-loop", f"{f.short} reads the loop variable `{nm}` after its loop ({c_} read(s)" + (f", {allowed[0]} confirmed" if allowed else "") + "): it then holds the element of the LAST iteration, which is rarely the one meant (first element / a specific one)", E.where(f, first[nm]))
    # DIRECT: a public accessor that returns a private attribute as it is hands out the object's own storage; the
    # confirmed ones return immutable values.  A new one is what remains when a defensive copy / conversion
    # (`dict(self._x)`, `self._x.copy()`, `tuple(self._x)`) is dropped.
    n_dir = 0
    for f in E.P.all_functions():
        if f.kind in ("overload", "setter") or f.module.name not in mods or f.cls is None or f.name.startswith("_"):
            continue
        for r_ in ast.walk(f.node):
            if not (isinstance(r_, ast.Return) and r_.value is not None):
                continue
            v = r_.value
            while isinstance(v, ast.Call) and isinstance(v.func, ast.Name) and v.func.id == "cast" and len(v.args) == 2:
                v = v.args[1]
            if isinstance(v, ast.Attribute) and isinstance(v.value, ast.Name) and v.value.id == "self" and v.attr.startswith("_") and not v.attr.startswith("__"):
                n_dir += 1
                key = f.short
                if key in DIRECT_RETURN_ALLOWED:
                    rep.excepted(rule, key + "|returns-private-attribute-directly", "confirmed immutable / deliberately shared: " + DIRECT_RETURN_ALLOWED[key], E.where(f, r_))
                else:
                    rep.violation(rule, key + "|returns-private-attribute-directly", f"{f.short} returns `self.{v.attr}` itself: unless that attribute is immutable, callers can now edit the object's own storage (a dropped copy / conversion)", E.where(f, r_))
            # ... or an element of a private container (`self._times[i]`): fine for scalars, a shared inner list otherwise
            if isinstance(v, ast.Subscript) and isinstance(v.value, ast.Attribute) and isinstance(v.value.value, ast.Name) and v.value.value.id == "self" and v.value.attr.startswith("_") and not v.value.attr.startswith("__"):
                n_dir += 1
                key = f.short
                ann = ast.unparse(f.node.returns) if f.node.returns is not None else ""
                if _immutable_annotation(ann):
                    rep.ok(rule, key + "|returns-element-of-private-container", f"annotated `{ann}` (immutable)", E.where(f, r_))
                elif key in DIRECT_RETURN_ALLOWED:
                    rep.excepted(rule, key + "|returns-element-of-private-container", "confirmed immutable / deliberately shared: " + DIRECT_RETURN_ALLOWED[key], E.where(f, r_))
                else:
                    rep.violation(rule, key + "|returns-element-of-private-container", f"{f.short} returns `{ast.unparse(v)[:60]}` (an element of the object's own storage, annotated `{ann or '?'}`) itself: callers can now edit the stored container (a dropped copy / conversion such as list(...))", E.where(f, r_))
    # GLOBAL: a public function that returns a module-level mutable table (or one of its entries) as it is hands the
    # process-wide table to its caller: one `.append` / item assignment there changes every later user.  The confirmed
    # exceptions are listed; a copy (`list(T[k])`, `dict(T)`) is what the others do.
    n_glob = 0
    for f in E.P.all_functions():
        if f.kind in ("overload", "setter") or f.module.name not in mods or f.name.startswith("_"):
            continue
        ann = ast.unparse(f.node.returns) if f.node.returns is not None else ""
        for r_ in ast.walk(f.node):
            if not (isinstance(r_, ast.Return) and r_.value is not None):
                continue
            v = r_.value
            while isinstance(v, ast.Call) and isinstance(v.func, ast.Name) and v.func.id == "cast" and len(v.args) == 2:
                v = v.args[1]
            base = v.value if isinstance(v, ast.Subscript) else v
            if not (isinstance(base, ast.Name) and base.id.isupper()):
                continue
            tbl = _module_table(E, f.module, base.id)
            if tbl is None:
                continue
            handed = tbl
            if isinstance(v, ast.Subscript) and isinstance(tbl, ast.Dict):
                vals = [x for x in tbl.values if x is not None]
                handed = vals[0] if vals else None
            if not isinstance(handed, (ast.List, ast.Dict, ast.Set, ast.ListComp, ast.DictComp, ast.SetComp)):
                continue
            n_glob += 1
            key = f.short + "|returns-module-table-directly"
            if _immutable_annotation(ann):
                rep.ok(rule, key, f"annotated `{ann}`", E.where(f, r_))
            elif f.short in GLOBAL_RETURN_ALLOWED:
                rep.excepted(rule, key, GLOBAL_RETURN_ALLOWED[f.short], E.where(f, r_))
            else:
                rep.violation(rule, key, f"{f.short} returns `{ast.unparse(v)[:60]}`, the module-level table {base.id} (or an entry of it) itself: a caller that edits the result (e.g. appends a state) changes the table for the whole process", E.where(f, r_))
    # STORED: a method that keeps an array-like / container PARAMETER in an attribute of self as it was given -- also
    # through wrappers that do not copy (`pm.AbstractArray(x)`, `np.asarray(x)`, `cast(T, x)`) -- shares it with the caller:
    # an in-place edit of the caller's object afterwards changes this object.  What the fixed code does: `.copy()`,
    # `np.array(x, ...)`, `tuple(x)`, `list(x)`, `dict(x)`.  Confirmed exceptions are listed by (class.method, attribute).
    n_st = 0
    for f in E.P.all_functions():
        if f.kind == "overload" or f.module.name not in mods or f.cls is None:
            continue
        a_ = f.node.args
        anns = {x.arg: ast.unparse(x.annotation) if x.annotation is not None else "" for x in a_.posonlyargs + a_.args + a_.kwonlyargs}
        mut = {k for k, v in anns.items() if _mutable_param_annotation(v)}
        if not mut:
            continue
        rebound = {x.id for x in ast.walk(f.node) if isinstance(x, ast.Name) and isinstance(x.ctx, ast.Store)}
        for st in ast.walk(f.node):
            tgt = val = None
            if isinstance(st, ast.Assign) and len(st.targets) == 1 and isinstance(st.targets[0], ast.Attribute) and isinstance(st.targets[0].value, ast.Name) and (st.targets[0].value.id == "self" or (f.kind == "classmethod" and st.targets[0].value.id not in anns)):
                # (in an alternative constructor the object under construction is a local: `obj._x = x`)
                tgt, val = st.targets[0].attr, st.value
            elif isinstance(st, ast.AnnAssign) and isinstance(st.target, ast.Attribute) and isinstance(st.target.value, ast.Name) and st.target.value.id == "self" and st.value is not None:
                tgt, val = st.target.attr, st.value
            elif isinstance(st, ast.Call) and ast.unparse(st.func) == "object.__setattr__" and len(st.args) == 3 and isinstance(st.args[1], ast.Constant):
                tgt, val = st.args[1].value, st.args[2]
            if val is None:
                continue
            def _unwrap(v):
                while isinstance(v, ast.Call) and ast.unparse(v.func) in ("pm.AbstractArray", "AbstractArray", "np.asarray", "np.asanyarray", "cast") and v.args:
                    v = v.args[-1] if ast.unparse(v.func) == "cast" else v.args[0]
                return v

            v = _unwrap(val)
            if isinstance(v, ast.Name) and v.id not in mut and v.id in rebound:
                # one step through a local bound exactly once (`arr = pm.AbstractArray(samples); self._x = arr`)
                defs = [x for x in ast.walk(f.node) if isinstance(x, (ast.Assign, ast.AnnAssign)) and (x.value is not None) and any(isinstance(t_, ast.Name) and t_.id == v.id for t_ in (x.targets if isinstance(x, ast.Assign) else [x.target]))]
                n_bind = sum(1 for x in ast.walk(f.node) if isinstance(x, ast.Name) and isinstance(x.ctx, ast.Store) and x.id == v.id)
                if len(defs) == 1 and n_bind == 1:
                    v = _unwrap(defs[0].value)
            if not (isinstance(v, ast.Name) and v.id in mut and v.id not in rebound):
                continue
            n_st += 1
            key = f"{f.short}|{tgt}|stored-as-given"
            ex = STORED_ALLOWED.get(f"{f.short}|{tgt}")
            if ex is not None:
                rep.excepted(rule, key, ex, E.where(f, st))
            else:
                rep.violation(rule, key, f"{f.short} keeps the parameter `{v.id}` ({anns[v.id][:60]}) in self.{tgt} as `{ast.unparse(val)[:60]}`: no copy is made (AbstractArray / np.asarray / cast share the caller's array), so an in-place edit of the caller's object afterwards changes this object", E.where(f, st))
    # ZERO: an Optional numeric limit for which 0 is a legal, distinct value is asked "is it defined?" with `is not None`.
    # Its truth value treats the limit 0 as undefined (the class of the repaired `if bottom_detuning and ...` defect).
    n_zero = 0
    for f in E.P.all_functions():
        if f.kind == "overload" or f.module.name not in mods:
            continue
        loc = {}
        for st in ast.walk(f.node):
            if isinstance(st, ast.Assign) and len(st.targets) == 1 and isinstance(st.targets[0], ast.Name):
                v = st.value
                while isinstance(v, ast.Call) and ast.unparse(v.func) == "cast" and len(v.args) == 2:
                    v = v.args[1]
                if isinstance(v, ast.Attribute) and v.attr in ZERO_LEGAL_LIMITS:
                    loc[st.targets[0].id] = v.attr
        tests = []
        for x in ast.walk(f.node):
            if isinstance(x, (ast.If, ast.IfExp, ast.While)):
                tests.append(x.test)
            elif isinstance(x, ast.BoolOp):
                tests.extend(x.values)
        seen_z = set()
        for tst in tests:
            stack = [tst]
            while stack:
                e = stack.pop()
                if isinstance(e, ast.BoolOp):
                    stack += e.values
                elif isinstance(e, ast.UnaryOp) and isinstance(e.op, ast.Not):
                    stack.append(e.operand)
                else:
                    fld = e.attr if isinstance(e, ast.Attribute) and e.attr in ZERO_LEGAL_LIMITS else loc.get(e.id) if isinstance(e, ast.Name) else None
                    if fld is None or (fld, e.lineno) in seen_z:
                        continue
                    seen_z.add((fld, e.lineno))
                    n_zero += 1
                    key = f"{f.short}|{fld}|defined-tested-with-is-not-None"
                    ex = ZERO_TRUTHY_ALLOWED.get(f"{f.short}|{fld}")
                    if ex is not None:
                        rep.excepted(rule, key, ex, E.where(f, e))
                    else:
                        rep.violation(rule, key, f"{f.short} decides whether the limit `{fld}` is defined by its truth value (`{ast.unparse(e)[:40]}` in a condition): {fld} = 0 is a legal limit and is treated as undefined, so the limit is ignored exactly where it is tightest", E.where(f, e))
    # CACHED: a public member computed once (`cached_property`, `lru_cache`, `cache`) hands the very same object to every
    # caller; that is fine for immutable values only (on the tree: tuple/bool results; the cached containers are private)
    n_cached = 0
    for f in E.P.all_functions():
        if f.kind == "overload" or f.module.name not in mods or f.name.startswith("_") or f.short.count(".") > 1:
            continue  # (closures cached inside a method are private to one call)
        decos = [ast.unparse(d).split("(")[0].split(".")[-1] for d in f.node.decorator_list]
        if not any(d in ("cached_property", "lru_cache", "cache") for d in decos):
            continue
        n_cached += 1
        ann = ast.unparse(f.node.returns) if f.node.returns is not None else ""
        if _immutable_annotation(ann):
            rep.ok(rule, f.short + "|cached-public-member-is-immutable", f"annotated `{ann}`", E.where(f))
        else:
            rep.violation(rule, f.short + "|cached-public-member-is-immutable", f"{f.short} is cached ({'/'.join(d for d in decos if d in ('cached_property', 'lru_cache', 'cache'))}) and returns `{ann or '?'}`: every caller (and the object's own methods) now receive the same mutable object, so an edit by one caller changes what the object reports afterwards", E.where(f))
    # QUANT: a rejection over an array comparison is existential -- `if np.any(<violation>): raise` or
    # `if not np.all(<requirement>): raise`.  `np.all(<violation>)` (or `not np.any(<requirement>)`) only rejects
    # inputs that are wrong everywhere and lets partly wrong ones through (12 sites on the tree, no exception).
    n_q = 0
    for f in E.P.all_functions():
        if f.kind == "overload" or f.module.name not in mods:
            continue
        for n in ast.walk(f.node):
            if not (isinstance(n, ast.If) and any(isinstance(s_, ast.Raise) for s_ in n.body)):
                continue

            def visit(e, neg):
                nonlocal n_q
                if isinstance(e, ast.UnaryOp) and isinstance(e.op, ast.Not):
                    visit(e.operand, not neg)
                    return
                if isinstance(e, ast.BoolOp):
                    for v in e.values:
                        visit(v, neg)
                    return
                if isinstance(e, ast.Call) and isinstance(e.func, (ast.Attribute, ast.Name)) and (e.func.attr if isinstance(e.func, ast.Attribute) else e.func.id) in ("any", "all") and e.args and isinstance(e.args[0], ast.Compare):
                    kind = e.func.attr if isinstance(e.func, ast.Attribute) else e.func.id
                    n_q += 1
                    existential = (kind == "any") != neg
                    key = f"{f.short}|{ast.unparse(e.args[0])[:40]}"
                    if not existential:
                        rep.violation(rule, key + "|rejection-is-existential", f"{f.short} rejects only `{'not ' if neg else ''}{ast.unparse(e)[:80]}`: the input is refused only when EVERY element violates the comparison; a partly wrong input passes (the rejection must be np.any(<violation>) or not np.all(<requirement>))", E.where(f, e))

            visit(n.test, False)
    if n_par < 5:
        rep.error(f"UNUSED: only {n_par} parameters inspected for {pid} (anchor modules not found?)")
    return {"parameters_inspected": n_par, "locals_inspected": n_loc, "post_loop_reads": n_leak, "array_rejections": n_q, "direct_returns": n_dir, "cached_public_members": n_cached, "module_table_returns": n_glob, "stored_parameters": n_st, "zero_legal_limit_tests": n_zero}
