"""C08 - the "SLM DMM waits for its first pulse" guard is evaluated on the
stale schedule of a parametrized sequence.

config_slm_mask() + declare_channel() are executed while the sequence is
still being built on the fly, so the SLM DMM is configured and flagged as
"waiting for the first pulse". The first Global pulse uses a variable: it is
only stored, the flag is never cleared on the template, and every later
operation on the SLM DMM (add_dmm_detuning / add / delay) is refused although
the same program issued directly with the evaluated values is valid.
"""
import sys
import warnings

from pulser import Pulse, Register, Sequence
from pulser.devices import DigitalAnalogDevice
from pulser.waveforms import ConstantWaveform

warnings.simplefilter("ignore")

reg = Register({"q0": (0, 0), "q1": (5, 0), "q2": (10, 0)})


def program(seq, amp):
    seq.config_slm_mask(["q0", "q2"])
    seq.declare_channel("ryd", "rydberg_global")
    seq.add(Pulse.ConstantPulse(200, amp, 0.0, 0.0), "ryd")
    seq.add_dmm_detuning(ConstantWaveform(100, -1.0), "dmm_0")
    seq.delay(100, "dmm_0")


def slots(seq):
    return {
        ch: [(type(s.type).__name__, int(s.ti), int(s.tf)) for s in sch.slots]
        for ch, sch in seq._schedule.items()
    }


direct = Sequence(reg, DigitalAnalogDevice)
program(direct, 2.0)

templ = Sequence(reg, DigitalAnalogDevice)
amp = templ.declare_variable("amp")
try:
    program(templ, amp)
    built = templ.build(amp=2.0)
except Exception as e:  # noqa
    print(f"FAIL: parametrized program raised {type(e).__name__}: {e}")
    sys.exit(1)

if slots(built) != slots(direct) or built._slm_mask_time != direct._slm_mask_time:
    print("FAIL: built sequence differs from the direct construction")
    print(" direct:", slots(direct))
    print(" built :", slots(built))
    sys.exit(1)

# The guard must still hold where it is meaningful (nothing parametrized)
seq = Sequence(reg, DigitalAnalogDevice)
seq.config_slm_mask(["q0", "q2"])
seq.declare_channel("ryd", "rydberg_global")
try:
    seq.add_dmm_detuning(ConstantWaveform(100, -1.0), "dmm_0")
except ValueError:
    pass
else:
    print("FAIL: guard lost on the non-parametrized sequence")
    sys.exit(1)
# ... and at build time, when no Global pulse precedes the DMM modulation
templ = Sequence(reg, DigitalAnalogDevice)
d = templ.declare_variable("d", dtype=int)
templ.config_slm_mask(["q0", "q2"])
templ.declare_channel("ryd", "rydberg_global")
templ.delay(d, "ryd")
try:
    templ.add_dmm_detuning(ConstantWaveform(100, -1.0), "dmm_0")
    templ.build(d=100)
except ValueError:
    pass
else:
    print("FAIL: an SLM DMM was modulated before any Global pulse")
    sys.exit(1)
print("PASS")
