"""C19: the same coordinates given as ints and as floats made two different layouts (and weight maps).

Equality (Traps.__eq__) and static_hash are taken over sorted_coords.tobytes() (+ sorted_weights.tobytes()), and the
arrays kept the dtype of the caller's data: RegisterLayout([[0, 0], [1, 0]]) hashed int64 bytes,
RegisterLayout([[0., 0.], [1., 0.]]) float64 bytes.  The property says that IDs, equality and hash depend only on the
set of coordinates.
Found by rule DTYPE (pstatic/rules/c19.py), written after an independent agent's remark.  Exits 1 when present.
"""
import sys

import numpy as np
from pulser.register.register_layout import RegisterLayout
from pulser.register.weight_maps import DetuningMap

bad = []
ints, floats = [[0, 0], [1, 0], [0, 1]], [[0.0, 0.0], [1.0, 0.0], [0.0, 1.0]]
a, b, c = RegisterLayout(ints), RegisterLayout(floats), RegisterLayout(np.array(ints))
if not (a == b == c):
    bad.append("RegisterLayout(int coords) != RegisterLayout(float coords)")
if len({a.static_hash(), b.static_hash(), c.static_hash()}) != 1:
    bad.append("static_hash differs between int and float coordinates")
if a.define_register(0, 2).layout != b.define_register(0, 2).layout:
    bad.append("registers defined from them carry unequal layouts")
m1, m2 = DetuningMap(floats, [1, 0, 0]), DetuningMap(floats, [1.0, 0.0, 0.0])
if m1 != m2:
    bad.append("DetuningMap(weights=[1, 0, 0]) != DetuningMap(weights=[1.0, 0.0, 0.0])")
if bad:
    print("DEFECT PRESENT:", "; ".join(bad))
    sys.exit(1)
print("ok: layouts and maps do not depend on the dtype of the data they were given")
