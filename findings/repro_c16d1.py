"""C16: every waveform has exactly `duration` finite samples, and a Blackman
waveform integrates to the requested area -- for all positive durations,
including 2.  np.blackman(2) is identically zero, so the normalisation divides
by zero and BlackmanWaveform(2, area) is [nan, nan].  The NaN amplitude is then
accepted by Pulse (nan < 0 is False)."""
import sys
import warnings

import numpy as np

warnings.simplefilter("ignore")

from pulser import Pulse
from pulser.waveforms import BlackmanWaveform

problems = []
for area in (1.0, -0.3, np.pi):
    for duration in (1, 2, 3, 4, 5):
        wf = BlackmanWaveform(duration, area)
        samples = wf.samples.as_array()
        if len(samples) != duration or not np.all(np.isfinite(samples)):
            problems.append(
                f"BlackmanWaveform({duration}, {area}).samples = {samples}"
            )
        elif not np.isclose(wf.integral, area):
            problems.append(
                f"BlackmanWaveform({duration}, {area}).integral = "
                f"{wf.integral}"
            )

# Reached through the public duration-changing API as well
wf2 = BlackmanWaveform(100, 1.0).change_duration(2)
if not np.isclose(wf2.integral, 1.0):
    problems.append(
        f"BlackmanWaveform(100, 1.0).change_duration(2).integral = "
        f"{wf2.integral}"
    )

# ... and the NaN amplitude goes through the Pulse validation
pulse = Pulse.ConstantDetuning(BlackmanWaveform(2, 1.0), 0.0, 0.0)
amp = pulse.amplitude.samples.as_array()
if not np.all(amp >= 0):
    problems.append(f"Pulse built with amplitude samples {amp}")

if problems:
    print("FAIL")
    for p in problems:
        print("  ", p)
    sys.exit(1)
print("PASS")
