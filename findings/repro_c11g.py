"""C11: SimulationResults._get_index_from_time returns the FIRST stored time within the tolerance (1e-3 us = one grid
step) instead of the closest one, so on the 1 ns "Full" grid float fuzz makes get_state / sample_state(t) answer with
the previous nanosecond's state for some of the stored times themselves (exit 1 when the defect is present)."""
import sys
import numpy as np
import pulser
from pulser_simulation import QutipEmulator

reg = pulser.Register({"q0": (0, 0)})
seq = pulser.Sequence(reg, pulser.MockDevice)
seq.declare_channel("ryd", "rydberg_global")
seq.add(pulser.Pulse.ConstantPulse(1000, 2 * np.pi, 0.0, 0.0), "ryd")
sim = QutipEmulator.from_sequence(seq)
sim.set_evaluation_times("Full")
res = sim.run()
times = res._sim_times
wrong = [i for i, t in enumerate(times) if res._get_index_from_time(float(t)) != i]
print(f"{len(wrong)} of {len(times)} stored times are looked up at another index, e.g. {wrong[:5]}")
if wrong:
    i = wrong[0]
    print(f"get_state({times[i]!r}) returns the state stored for {times[res._get_index_from_time(float(times[i]))]!r}")
    print("FAIL")
    sys.exit(1)
print("PASS")
