"""C09 -- a sequence is exactly the effect of its successful calls.

ORDER   validate-before-mutate, evaluated locally per function
RECORD  the call is recorded after success and nothing can reject afterwards
RO      read-only API has an empty write effect on sequence state
"""
from __future__ import annotations

import ast
from collections import OrderedDict

from ..effects import Raise, Write
from ..engine import DECOS, SEQ, Engine, event_desc
from ..flow import Event, FunctionFlow, Node
from ..model import AnalysisError, dotted, norm
from ..report import Report, load_table
from ..resolve import Callable_

EXPLANATION = (
    "Static validate-before-mutate analysis over every function reachable from the public Sequence API "
    "(decorator wrappers composed, property getters/setters as calls, call-log replay resolved to the recordable methods). "
    "ORDER: inside each function no event through which an explicit `raise` can escape is reachable (CFG, loops included) after an event "
    "with a write effect on a sequence-state region (all fields of the classes of pulser.sequence.{sequence,_schedule,_basis_ref,_call}) whose root "
    "is not a fresh object; handlers that restore a saved field and re-raise are recognised. Each ordering pair is keyed by "
    "(function, earlier event, later event) and must be listed with a reason in tables/c09_infeasible.json or as a known finding. "
    "RECORD: the call record is appended after the wrapped function returned and no raising event follows it. "
    "RO: the read-only API (str, duration, estimate, phase-ref, is_*, declared_*, available_channels, serialisation, sampling, drawing) has an empty "
    "state-write summary. NOT decided: implicit exceptions raised by library calls (numpy, float(), dict lookups), and the behavioural equality "
    "of rebuilt/deserialised sequences (runtime). ORDER (added): the raises through which a triaged pair can fail are frozen (tables/c09_pair_raises.json) -- a raise that was not possible when the pair was triaged is reported; a raise of a validator that already ran, on an argument of the same name, at a point dominating the mutation is discharged; raises inside single-site private helpers are attributed to the caller; tables/c09_precedence.json lists validate-before-mutate facts the triage relies on (checked on the program order of the symbolic log)."
    " ALIAS (round 3): no public accessor of Sequence returns one of the sequence's own mutable containers (_variables, _calls, _schedule, ...) itself: a copy or a derived value only, so that neither a caller nor a replica made by switch_register/switch_device can change the sequence without a recorded call."
    " TOTAL (round 4): the maximum over the Global channels' samples that _set_slm_mask_dmm takes after configuring the DMM cannot raise on a channel without samples (initial= given or empty channels filtered)."
)
ASSUMPTIONS = [
    "only explicit raise statements of the project are modelled; implicit exceptions of builtins/numpy are not",
    "aliasing is tracked at (class, field) granularity with fresh/self/param roots",
    "infeasible ordering pairs are frozen in tables/c09_infeasible.json, one reason each, confirmed by reading",
]

CTORS = ("__init__", "__post_init__", "__new__")

READ_ONLY = [
    "__str__", "get_duration", "estimate_added_delay", "current_phase_ref", "is_parametrized", "is_in_eom_mode",
    "is_register_mappable", "is_measured", "get_measurement_basis", "get_addressed_bases", "get_addressed_states",
    "declared_channels", "declared_variables", "available_channels", "magnetic_field", "get_register", "register",
    "qubit_info", "device", "to_abstract_repr", "_serialize", "_to_dict", "draw", "_slm_mask_time",
]
READ_ONLY_FUNCS = [
    "pulser.sampler.sampler.sample",
    "pulser.json.abstract_repr.serializer.serialize_abstract_sequence",
    "pulser.sequence.helpers._seq_str.seq_to_str",
]


def _callers_index(E: Engine, callables: list[Callable_]) -> dict[str, list[tuple[FunctionFlow, Event, Callable_, str]]]:
    idx: dict[str, list] = {}
    for c in callables:
        fl = E.flow(c)
        for n, _i, e in fl.all_events():
            for cal, mode in e.callees:
                idx.setdefault(cal.key, []).append((fl, e, cal, mode))
                _SITE_NODE[id(e)] = n
    return idx


_SITE_NODE: dict = {}


def _caller_compensated(E: Engine, c: Callable_, regions: set, raises: set, callers: dict, depth: int = 0) -> bool:
    """Every external call site of ``c`` sits in a try whose re-raising handler restores ``regions`` -- at the site
    itself or, when the site is in a private helper that lets the exception through, at every call site of that helper
    (an extracted helper is part of its caller)."""
    sites = [s for s in callers.get(c.key, []) if s[0].call.key != c.key]
    if not sites:
        return False
    for fl, e, _cal, _mode in sites:
        node = _SITE_NODE[id(e)]
        for _fn, exc in raises:
            esc, restored = fl.escape(node, exc)
            if not esc:
                continue
            if regions <= {(o, f) for o, f, _recv in restored}:
                continue
            host = fl.call
            if depth < 3 and host.fn.name.startswith("_") and not host.fn.name.startswith("__") and _caller_compensated(E, host, regions, {(_fn, exc)}, callers, depth + 1):
                continue
            return False
    return True


def _root_live(E: Engine, c: Callable_, root: str, callers: dict, seen: set) -> bool:
    """May ``root`` (in the frame of ``c``) denote an object that existed before the public call?"""
    if root in ("self", "unk", "global") or root.startswith("outer:"):
        return True
    if not root.startswith("param:"):
        return True
    k = (c.key, root)
    if k in seen:
        return False
    seen.add(k)
    name = c.fn.name
    if not name.startswith("_") and c.fn.parent is None:
        return True  # public function: the argument comes from the user
    sites = callers.get(c.key, [])
    if not sites:
        return True
    for fl, e, cal, mode in sites:
        for r in E.S._map_root(fl, e, cal, mode, root):
            if r == "fresh":
                continue
            if _root_live(E, fl.call, r, callers, seen):
                return True
    return False


def _single_site_helper(E: Engine, e: Event, callers: dict):
    """The private helper a call event denotes, when this is its only call site in the analysed program."""
    if e.kind != "call" or len(e.callees) != 1:
        return None
    cal, _mode = e.callees[0]
    f = cal.fn
    if cal.binding or f.decorators or not f.name.startswith("_") or f.name.startswith("__"):
        return None
    sites = callers.get(cal.key, [])
    if len(sites) != 1:
        return None
    return cal


def _split(E: Engine, e: Event, writes, raises, callers: dict, depth: int = 0) -> list:
    """[(event description, effect subset)]: a call to a single-site private helper is described by the helper's
    own events that carry (part of) the effect; anything else by itself."""
    cal = _single_site_helper(E, e, callers) if depth < 3 else None
    want = writes if writes is not None else raises
    if cal is None:
        return [(event_desc(e), want)]
    fl = E.flow(cal)
    out = []
    covered: set = set()
    for node, _i, ie in fl.all_events():
        w, r = E.S.event_effects(fl, node, ie)
        if writes is not None:
            part = {(y.owner, y.field) for y in E.state_writes(w)} & writes
        else:
            part = {(x.fn, x.exc) for x in r} & raises
        if part:
            covered |= part
            out += _split(E, ie, part if writes is not None else None, part if raises is not None else None, callers, depth + 1)
    rest = want - covered
    if rest or not out:
        out.append((event_desc(e), rest or want))
    # merge duplicates
    merged: dict = {}
    for dsc, part in out:
        merged.setdefault(dsc, set()).update(part)
    return list(merged.items())


_DOM_CACHE: dict = {}


def _prevalidated(E: Engine, fl: FunctionFlow, na: Node, nb: Node, eb: Event) -> set:
    """Short names of side-effect-free project functions (validators) that were called, with an argument sharing
    provenance with the later event's arguments, at a node that dominates the mutation ``na``."""
    key = id(fl)
    if key not in _DOM_CACHE:
        _DOM_CACHE[key] = fl.dominators()
    dom = _DOM_CACHE[key].get(na.id, set())
    later_roots: set = set()
    if isinstance(eb.node, ast.Call):
        for a in list(eb.node.args) + [k.value for k in eb.node.keywords]:
            later_roots |= {x.id for x in ast.walk(a) if isinstance(x, ast.Name)}
    out = set()
    for node, _i, e in fl.all_events():
        if node.id not in dom or node.id == na.id or e.kind != "call" or not isinstance(e.node, ast.Call):
            continue
        roots = set()
        for a in list(e.node.args) + [k.value for k in e.node.keywords]:
            roots |= {x.id for x in ast.walk(a) if isinstance(x, ast.Name)}
        roots -= {"self"}
        if not (roots & later_roots):
            continue
        for cal, _m in e.callees:
            w, r = E.S.of(cal)
            if not E.state_writes(w) and r:
                out |= {x.fn for x in r}
    return out


def _raise_owner(E: Engine, fn_short: str, callers_by_short: dict, depth: int = 0) -> str:
    """A raise inside a private helper with a single call site is attributed to that caller."""
    if depth > 3:
        return fn_short
    last = fn_short.split(".")[-1]
    if not last.startswith("_") or last.startswith("__"):
        return fn_short
    cs = callers_by_short.get(fn_short)
    if cs is None or len(cs) != 1:
        return fn_short
    return _raise_owner(E, next(iter(cs)), callers_by_short, depth + 1)


def _raise_owners(E: Engine, fn_short: str, callers_by_short: dict, depth: int = 0) -> set:
    """Every function a raise inside a private helper may be attributed to: the helper itself, or (through private
    helpers, however many call sites they have) each of its callers -- so that extracting shared validation code into
    a private helper used by several functions does not look like a new way to fail."""
    out = {fn_short}
    last = fn_short.split(".")[-1]
    if depth > 3 or not last.startswith("_") or last.startswith("__"):
        return out
    for c in callers_by_short.get(fn_short, ()):
        out |= _raise_owners(E, c, callers_by_short, depth + 1)
    return out


def order_pairs(E: Engine, callables: list[Callable_]) -> "OrderedDict[tuple[str, str, str], dict]":
    callers = _callers_index(E, callables)
    pairs: "OrderedDict[tuple[str, str, str], dict]" = OrderedDict()
    for c in callables:
        if c.fn.name in CTORS:
            continue
        fl = E.flow(c)
        evs = []
        for node, i, e in fl.all_events():
            w, r = E.S.event_effects(fl, node, e)
            w = {x for x in E.state_writes(w) if _root_live(E, c, x.root, callers, set())}
            if w or r:
                evs.append((node, i, e, w, r))
        reach: dict[int, set[int]] = {}
        for na, ia, ea, wa, _ra in evs:
            if not wa:
                continue
            if na.id not in reach:
                reach[na.id] = fl.reachable_from(na.id)
            for nb, ib, eb, _wb, rb in evs:
                if not rb:
                    continue
                after = (nb.id == na.id and (ib > ia or (ea.in_loop and eb.in_loop))) or (nb.id in reach[na.id])
                if not after:
                    continue
                # compensation: every escaping raise of B passes re-raising handlers restoring A's fields
                live_raises = set()
                for x in rb:
                    esc, restored = fl.escape(nb, x.exc)
                    if not esc:
                        continue
                    rest_fields = {(o, f) for o, f, _recv in restored}
                    in_try = any(t in [tt for tt, _ in na.tries] for t, _ in nb.tries) if restored else False
                    if restored and in_try and all((y.owner, y.field) in rest_fields for y in wa):
                        continue
                    live_raises.add(x)
                # a validation that already ran -- on an argument of the same provenance -- at a point dominating the
                # mutation cannot reject again: the same function raising later is discharged
                pre = _prevalidated(E, fl, na, nb, eb)
                live_raises = {x for x in live_raises if x.fn not in pre}
                if not live_raises:
                    continue
                if _caller_compensated(E, c, {(y.owner, y.field) for y in wa}, {(x.fn, x.exc) for x in live_raises}, callers):
                    continue
                # a private helper with a single call site is part of its caller: the pair is named after the
                # helper's own events (extracting / inlining such a helper must not create a "new" pair)
                for da, wa_ in _split(E, ea, {(y.owner, y.field) for y in wa}, None, callers):
                    for db, rb_ in _split(E, eb, None, {(x.fn, x.exc) for x in live_raises}, callers):
                        key = (c.fn.short, da, db)
                        d = pairs.setdefault(key, {"callable": c, "first": ea, "later": eb, "writes": set(), "raises": set(), "where": E.where(c.fn, eb.node)})
                        d["writes"] |= {(o.split(".")[-1], f) for o, f in wa_}
                        d["raises"] |= set(rb_)
    return pairs


def run(E: Engine, rep: Report, tier: str) -> dict:
    E.prepare_summaries()
    S = E.S
    seq = E.cls(SEQ)
    entries = [E.R.effective(f) for f in E.public_entries()]
    entries += [E.R.effective(E.fn(q)) for q in ("pulser.sequence.helpers._switch_device.switch_device",)]
    callables = E.reachable_callables(entries)

    # ------------------------------------------------------------- ORDER
    table = load_table("c09_infeasible.json")
    infeasible = {}
    for row in table["pairs"]:
        infeasible[(row["function"], row.get("after", "*"), row["later"])] = row["reason"]
    pairs = order_pairs(E, callables)
    used = set()
    callers_by_short: dict = {}
    for c_ in callables:
        for _n, _i, e_ in E.flow(c_).all_events():
            for cal_, _m in e_.callees:
                if not cal_.binding and not cal_.fn.decorators:
                    callers_by_short.setdefault(cal_.fn.short, set()).add(c_.fn.short)
    try:
        pair_raises = load_table("c09_pair_raises.json")["pairs"]
    except Exception:
        pair_raises = {}
    for (f, a, b), d in pairs.items():
        key = f"{f}|{a}|{b}"
        reason = infeasible.get((f, a, b))
        k_used = (f, a, b)
        if reason is None:
            reason = infeasible.get((f, "*", b))
            k_used = (f, "*", b)
        detail = (
            f"in {f}: after [{a}] (writes {sorted(d['writes'])}) the later event [{b}] can let an explicit raise escape: "
            f"{sorted(d['raises'])[:12]}{' ...' if len(d['raises']) > 12 else ''}"
        )
        # the triage of a pair (infeasible / known) was made for the ways it could fail on the day it was made:
        # a raise that was not there then (tables/c09_pair_raises.json) is a new way to fail after the mutation
        recorded = pair_raises.get(key)
        now = {f"{_raise_owner(E, fn, callers_by_short)}:{exc}" for fn, exc in d["raises"]}
        fresh = sorted(now - set(recorded)) if recorded is not None else []
        if fresh:
            # a raise that moved into a shared private helper is the old raise, attributed to any of the helper's callers
            moved = {f"{_raise_owner(E, fn, callers_by_short)}:{exc}" for fn, exc in d["raises"] if any(f"{o}:{exc}" in set(recorded) for o in _raise_owners(E, fn, callers_by_short))}
            fresh = [x for x in fresh if x not in moved]
        if fresh and (reason is not None or rep.is_known("ORDER", key)):
            rep.violation("ORDER", key + "|new-raise:" + ",".join(fresh)[:120], f"in {f}: after [{a}] (writes {sorted(d['writes'])}) the later event [{b}] can now also let {fresh} escape -- this raise was not possible when the pair was triaged ("
                          + ("listed as infeasible: " + reason[:80] if reason is not None else "listed as a known finding") + "), so a validation that used to precede the mutation has moved behind it", d["where"], raises=sorted(d["raises"]), writes=sorted(d["writes"]))
        if reason is not None:
            used.add(k_used)
            rep.excepted("ORDER", key, reason, d["where"], raises=sorted(d["raises"]))
        else:
            rep.violation("ORDER", key, detail, d["where"], raises=sorted(d["raises"]), writes=sorted(d["writes"]))
    # functions that are clean (no pair) are obligations too
    fns_with_pairs = {f for (f, _a, _b) in pairs}
    n_clean = 0
    for c in callables:
        if c.fn.name in CTORS or c.fn.short in fns_with_pairs:
            continue
        w, _r = S.of(c)
        if E.state_writes(w):
            n_clean += 1
            rep.ok("ORDER", f"{c.fn.short}|clean", "writes sequence state; no raising event reachable after the first write", E.where(c.fn), nontrivial=True)
    # explicit precedence facts behind the triage (tables/c09_precedence.json)
    from .. import sym as _sym

    for row in load_table("c09_precedence.json")["rows"]:
        f_ = E.fn(row["function"])
        Sf = _sym.sym_of(E.P, f_, False)
        own = [l for l in Sf.log if l.fn == f_.short and l.kind == "call" and l.target is not None and l.target[0] == "attr"]
        firsts = [l for l in own if l.target[2] == row["first"] and any(_sym.contains(a, ("name", row["arg"])) for a in l.value[2])]
        thens = [l for l in own if l.target[2] == row["then"]]
        if not thens:
            rep.error(f"precedence row {row['function']}: `{row['then']}` is no longer called")
            continue
        ok = bool(firsts) and all(any(own.index(a) < own.index(t) for a in firsts) for t in thens)
        rep.check(ok, "ORDER", f"{f_.short}|{row['first']}-before-{row['then']}", row["why"], f"{f_.short} no longer calls {row['first']}({row['arg']}) before {row['then']}: {row['why']}", E.where(f_))
    stale = [k for k in infeasible if k not in used]
    rep.notes["stale_infeasible_rows"] = ["|".join(k) for k in stale]
    rep.notes["pair_raises_now"] = {f"{f}|{a}|{b}": sorted({f"{_raise_owner(E, fn, callers_by_short)}:{exc}" for fn, exc in d["raises"]}) for (f, a, b), d in pairs.items()}
    rep.floor("ORDER", 25)

    # ------------------------------------------------------------- RECORD
    store_w = E.fn(DECOS + ".store.wrapper")
    c_store = Callable_(store_w, (("func", Callable_(E.method(SEQ, "delay"), ())),))
    fl = E.flow(c_store)
    call_ev = None
    append_ev = None
    order = []
    for node, i, e in fl.all_events():
        order.append((node, i, e))
        if e.kind == "call" and e.via == "func":
            call_ev = (node, i, e)
        if e.kind == "write" and any(f in ("_calls", "_to_build_calls") for _o, f in e.places):
            append_ev = (node, i, e)
    if call_ev is None or append_ev is None:
        raise AnalysisError("anchor: store.wrapper no longer calls func / appends to the call log")
    dom = fl.dominators()
    rep.check(
        call_ev[0].id in dom.get(append_ev[0].id, set()) and call_ev[0].id != append_ev[0].id,
        "RECORD", "store.wrapper|append-after-func",
        "the call record is appended on paths that passed the call of the wrapped function",
        "storage.append is not dominated by the call of the wrapped function: a call could be recorded before it succeeded",
        E.where(store_w, append_ev[2].node),
    )
    # no raising event after the append
    reach_after = fl.reachable_from(append_ev[0].id)
    bad = []
    for node, i, e in order:
        if node.id in reach_after or (node.id == append_ev[0].id and i > append_ev[1]):
            _w, r = S.event_effects(fl, node, e)
            if r:
                bad.append(event_desc(e))
    rep.check(not bad, "RECORD", "store.wrapper|nothing-raises-after-append", "no raising event follows the record", f"events that can raise after the call was recorded: {bad}", E.where(store_w, append_ev[2].node))
    # storage is chosen after verify_parametrization ran: store.wrapper is itself wrapped by verify_parametrization
    eff = E.R.effective(E.method(SEQ, "delay"))
    rep.check(
        eff.fn.qualname == DECOS + ".verify_parametrization.wrapper" and eff.binding and eff.binding[0][1].fn is store_w,
        "RECORD", "store|wrapped-by-verify_parametrization",
        "store.wrapper runs inside verify_parametrization.wrapper, so `storage` is chosen after the variables were checked",
        "store.wrapper is not wrapped by verify_parametrization: the storage list could be chosen before the sequence becomes parametrized",
        E.where(store_w),
    )
    # manual records: the _Call append is the last state write and nothing raises after it
    for name, f in sorted(E.recordable().items()):
        if any((dotted(d) or "").split(".")[-1] == "store" for d in f.decorators) or name == "__init__":
            continue
        flm = E.flow(f)
        rec = None
        evs = list(flm.all_events())
        for node, i, e in evs:
            if e.kind == "write" and any(fl_ in ("_calls", "_to_build_calls") for _o, fl_ in e.places):
                rec = (node, i, e)
        if rec is None:
            # through a private helper that appends the record: the call of that helper is the record site
            for node, i, e in evs:
                if e.kind == "call" and any(c_.innermost().name.startswith("_") for c_, _m in e.callees):
                    w_, _r = S.event_effects(flm, node, e)
                    if any(x.field in ("_calls", "_to_build_calls") for x in E.state_writes(w_)):
                        rec = (node, i, e)
        if rec is None:
            raise AnalysisError(f"anchor: manual record site of {name} not found")
        after = flm.reachable_from(rec[0].id)
        later_w, later_r = [], []
        for node, i, e in evs:
            if node.id in after or (node.id == rec[0].id and i > rec[1]):
                w, r = S.event_effects(flm, node, e)
                if E.state_writes(w):
                    later_w.append(event_desc(e))
                if r:
                    later_r.append(event_desc(e))
        rep.check(
            not later_w and not later_r, "RECORD", f"{f.short}|record-is-last",
            "manual call record is the last state write and nothing can raise after it",
            f"after the manual call record: later writes {later_w}, later raising events {later_r}",
            E.where(f, rec[2].node),
        )
    rep.floor("RECORD", 6)

    # ----------------------------------------------------------------- RO
    for name in READ_ONLY:
        fs = [f for f in seq.methods.get(name, []) if f.kind not in ("overload", "setter")]
        if not fs:
            raise AnalysisError(f"anchor: read-only entry Sequence.{name} not found")
        for f in fs:
            _check_ro(E, rep, E.R.effective(f), f"Sequence.{name}")
    for q in READ_ONLY_FUNCS:
        f = E.fn(q)
        _check_ro(E, rep, E.R.effective(f), f.short)
    rep.floor("RO", 20)

    # -------------------------------------------------------------- TOTAL
    # _set_slm_mask_dmm takes np.max over the samples of every Global channel *after* the DMM was configured: a
    # Global channel that holds no samples yet makes np.max raise ("zero-size array"), so the call fails with the DMM
    # already declared.  The reduction must be total: `initial=` given, or empty channels filtered out.
    ssm = E.method(SEQ, "_set_slm_mask_dmm")
    from .. import sym as _symT
    from .symutil import S as _ST, sh as _shT

    reds = []
    for l in _ST(E, ssm, inline=False).log:
        for top in (l.value, l.target):
            for t in _symT.subterms(top) if top is not None else ():
                if t[0] == "call" and t[1] in (_symT.Pattern("np.max").term, _symT.Pattern("np.amax").term, _symT.Pattern("np.min").term) and t[2] and any(x[0] == "call" and x[1][0] == "attr" and x[1][2] == "get_samples" for x in _symT.subterms(t[2][0])):
                    reds.append((t, l))
    seen_red = set()
    for t, l in reds:
        if t in seen_red:
            continue
        seen_red.add(t)
        total = dict(t[3]).get("initial") is not None
        if not total:
            # filtered comprehension: only channels that have slots / samples
            for c_ in [x for x in _symT.subterms(l.value) if x[0] == "comp" and _symT.contains(x, t)] if l.value is not None else []:
                total = total or any(_symT.contains(c_[3][0][1], y) for y in _symT.subterms(c_[3][0][1]) if y[0] == "attr" and y[2] in ("slots", "duration")) and c_[3][0][1] != _symT.TRUE and any(y[0] == "attr" and y[2] in ("slots",) for y in _symT.subterms(c_[3][0][1]))
        rep.check(total, "TOTAL", "Sequence._set_slm_mask_dmm|max-over-channel-samples-is-total", "np.max(..., initial=...) (or empty channels are filtered out)", f"`{_shT(t, 90)}` raises ValueError('zero-size array ...') for a Global channel without samples; it runs after the DMM of the SLM mask was configured, so config_slm_mask (or the first pulse) fails with the DMM already declared", E.where(ssm, l.node))
    if not reds:
        raise AnalysisError("anchor: the maximum over the Global channels' samples in Sequence._set_slm_mask_dmm was not found")
    # -------------------------------------------------------------- ALIAS
    # a read accessor never hands out one of the sequence's own mutable containers: whoever edits the result would
    # change the sequence (and, through switch_register/switch_device which copy `declared_variables`, a replica would
    # share the table with its original) without any call being recorded
    from .. import sym as _symA
    from .symutil import S as _SA, sh as _shA, unobj as _unA

    mutable_attrs: dict[str, str] = {}
    for fs in seq.methods.values():
        for f in fs:
            if f.kind in ("overload", "property", "cached_property"):
                continue
            for l in _SA(E, f, inline=False).logged("store"):
                t = l.target
                if t is None or t[0] != "attr" or t[1] != ("name", "self") or l.value is None:
                    continue
                v = _unA(l.value)
                kind = None
                if v[0] in ("dict", "list", "set") or (v[0] == "comp" and v[1] in ("dict", "list", "set")):
                    kind = v[0] if v[0] != "comp" else v[1]
                elif v[0] == "call" and v[1][0] == "name" and v[1][1] in ("dict", "list", "set", "defaultdict", "OrderedDict", "_Schedule"):
                    kind = v[1][1]
                if kind:
                    mutable_attrs[t[2]] = kind
    if not {"_variables", "_calls", "_schedule"} <= set(mutable_attrs):
        raise AnalysisError(f"anchor: mutable containers of Sequence not recognised (got {sorted(mutable_attrs)})")
    n_acc = 0
    for nm_, fs in seq.methods.items():
        if nm_.startswith("_"):
            continue
        for f in fs:
            if f.kind in ("overload", "setter"):
                continue
            for l in _SA(E, f, inline=False).logged("return"):
                if l.value is None:
                    continue
                r_ = _unA(l.value)
                if not any(t[0] == "attr" and t[1] == ("name", "self") and t[2] in mutable_attrs for t in _symA.subterms(r_)):
                    continue
                n_acc += 1
                aliased = r_[0] == "attr" and r_[1] == ("name", "self") and r_[2] in mutable_attrs
                rep.check(not aliased, "ALIAS", f"Sequence.{nm_}|returns-no-reference-to-own-container", "returns a copy / a derived value, not the container itself",
                          f"Sequence.{nm_} returns `{_shA(r_, 60)}`, the sequence's own {mutable_attrs.get(r_[2], '')} container: edits of the result (e.g. declare_variable on a replica that was given this table) change the sequence without any recorded call", E.where(f, l.node))
    rep.floor("ALIAS", 3)

    unres = E.unresolved_in(callables)
    return {
        "functions_analysed": len(callables),
        "ordering_pairs": len(pairs),
        "state_writing_functions_without_pairs": n_clean,
        "unresolved_calls": unres,
        "unresolved_call_count": sum(len(v) for v in unres.values()),
        "stale_infeasible_rows": rep.notes["stale_infeasible_rows"],
        "pair_raises_now": rep.notes["pair_raises_now"],
        "pairs": [{"key": "|".join(k), "writes": sorted(d["writes"]), "raises": sorted(d["raises"])[:20]} for k, d in pairs.items()],
    }


def _check_ro(E: Engine, rep: Report, c: Callable_, label: str) -> None:
    w, _r = E.S.of(c)
    sw = sorted({(x.owner.split(".")[-1], x.field, x.op, x.origin) for x in E.state_writes(w) if x.root != "fresh"})
    for owner, fld, op, origin in sw:
        rep.violation("RO", f"{label}|{owner}.{fld}|{op}|{origin}", f"read-only entry {label} can write {owner}.{fld} ({op}) in {origin}", E.where(c.innermost()))
    if not sw:
        rep.ok("RO", f"{label}|no-state-write", "empty write effect on sequence-state regions", E.where(c.innermost()))
