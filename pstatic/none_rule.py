"""NONE rule: every use of an Optional field in a value context is dominated by a
non-None guard on that same access path (DESIGN 3).  ``cast()`` is not a guard."""
from __future__ import annotations

import ast
from typing import Iterable, Optional

from .absval import abstractor
from .engine import Engine
from .model import ClassInfo, FunctionInfo, dotted, norm
from .report import Report

VALUE_FUNCS = {"float", "int", "round", "abs", "max", "min", "sum", "range", "len", "sqrt", "ceil", "floor", "log"}


def optional_fields(E: Engine, class_quals: Iterable[str]) -> dict[tuple[str, str], str]:
    """(class qual, field) -> annotation text, for fields whose declared type admits None.

    Per class along the MRO: a subclass that re-declares the field as non-Optional wins.
    """
    out: dict[tuple[str, str], str] = {}
    for q in class_quals:
        c = E.P.cls(q)
        for k in [c] + E.P.subclasses(c):
            seen = set()
            for m in E.P.mro(k):
                for name, fi in m.fields.items():
                    if name in seen:
                        continue
                    seen.add(name)
                    t = E.R.ann_type(m.module, fi.annotation)
                    if ("none",) in t:
                        out[(k.qualname, name)] = norm(fi.annotation)
    return out


def _is_optional_use(E: Engine, fl, node: ast.Attribute, opt: dict) -> Optional[tuple[str, str]]:
    bt = E.R.type_of(node.value, fl.ctx)
    hits = [(c.qualname, node.attr) for c in E.R.classes_of(bt) if (c.qualname, node.attr) in opt]
    if not hits:
        return None
    # (Optional-ness is per class: BaseEOM.mod_bandwidth is a plain float while
    # Channel.mod_bandwidth is Optional; one Optional static class is enough.)
    return hits[0]


def value_context(parents: dict, node: ast.AST, fn_node: Optional[ast.AST] = None) -> Optional[tuple]:
    """Is the Attribute used where None would raise (ordering / arithmetic / float() / format spec)?"""
    p = parents.get(id(node))
    child = node
    while p is not None:
        if isinstance(p, ast.Compare):
            ops = p.ops
            operands = [p.left] + list(p.comparators)
            for i, op in enumerate(ops):
                if isinstance(op, (ast.Lt, ast.LtE, ast.Gt, ast.GtE)) and (operands[i] is child or operands[i + 1] is child):
                    return ("ordering comparison", node)
            return None
        if isinstance(p, ast.BinOp):
            return ("arithmetic", node)
        if isinstance(p, ast.UnaryOp) and isinstance(p.op, (ast.USub, ast.UAdd)):
            return ("arithmetic", node)
        if isinstance(p, ast.Call) and (dotted(p.func) or "").split(".")[-1] == "cast" and len(p.args) == 2 and p.args[1] is child:
            # cast() is not a guard: the value keeps flowing
            child = p
            p = parents.get(id(p))
            continue
        if isinstance(p, (ast.Assign, ast.AnnAssign)) and getattr(p, "value", None) is child and fn_node is not None:
            tgt = p.targets[0] if isinstance(p, ast.Assign) and len(p.targets) == 1 else getattr(p, "target", None)
            if isinstance(tgt, ast.Name):
                for n2 in ast.walk(fn_node):
                    if isinstance(n2, ast.Name) and n2.id == tgt.id and isinstance(n2.ctx, ast.Load):
                        vc = value_context(parents, n2, None)
                        if vc:
                            return (vc[0] + f" (through local `{tgt.id}`)", n2)
            return None
        if isinstance(p, ast.Call):
            fd = (dotted(p.func) or "").split(".")[-1]
            if child in p.args and fd in VALUE_FUNCS:
                return (f"{fd}()", node)
            if child in p.args and (dotted(p.func) or "").startswith(("np.", "numpy.", "math.")):
                return (f"{dotted(p.func)}()", node)
            return None
        if isinstance(p, ast.FormattedValue):
            if p.format_spec is not None and p.value is child:
                spec = norm(p.format_spec)
                if any(ch in spec for ch in "fdegFEG%"):
                    return ("numeric format spec", node)
            return None
        if isinstance(p, (ast.Subscript,)) and p.slice is child:
            return ("index", node)
        if isinstance(p, (ast.Attribute,)):
            return None
        if isinstance(p, (ast.IfExp, ast.BoolOp, ast.Tuple, ast.List, ast.Starred)):
            # value flows upward:  (a if c else b) > x
            if isinstance(p, ast.IfExp) and p.test is child:
                return None
            if isinstance(p, ast.BoolOp):
                return None
            child = p
            p = parents.get(id(p))
            continue
        return None
    return None


def _own_nodes(fn_node: ast.AST):
    """Nodes of a function body, not descending into nested defs (analysed on their own)."""
    stack = list(ast.iter_child_nodes(fn_node))
    while stack:
        n = stack.pop()
        if isinstance(n, (ast.FunctionDef, ast.AsyncFunctionDef, ast.ClassDef)):
            continue
        yield n
        stack.extend(ast.iter_child_nodes(n))


def _caller_guarded(E: Engine, f: FunctionInfo, attr: str) -> Optional[str]:
    """``self.<attr>`` used unguarded in ``f``: every call site of ``f`` is under `<receiver>.<attr> is not None`."""
    sites = E.callers_of(f)
    if not sites:
        return None
    descr = []
    for caller, e in sites:
        n = e.node
        if not (isinstance(n, ast.Call) and isinstance(n.func, ast.Attribute)):
            return None
        recv = n.func.value
        fl = E.flow(caller)
        ab = abstractor(fl)
        want = frozenset(r + "." + attr for r in ab.av(recv).roots)
        dnf = ab.enclosing_conditions(n)
        all_ok = True
        for conj in dnf:
            ok = False
            for lit in conj:
                a = lit.atom
                if a is not None and a.rel == "IsNot" and "const:None" in a.rhs.roots and a.lhs.roots == want:
                    ok = True
                if a is None and lit.truth is not None and lit.positive and lit.truth.roots == want:
                    ok = True
                # `"<attr>" not in self._optional_parameters`: the parameter is mandatory for this
                # device class, and mandatory parameters are rejected when None at construction
                if a is not None and a.rel == "NotIn" and f"const:{attr!r}" in a.lhs.roots and any(r.endswith("._optional_parameters") for r in a.rhs.roots):
                    ok = True
            if not ok:
                all_ok = False
        if not all_ok and not _sym_call_guarded(E, caller, n, attr):
            return None
        descr.append(caller.short)
    return "guarded at every call site (" + ", ".join(sorted(set(descr))) + f"): `<receiver>.{attr} is not None`"


def _sym_call_guarded(E: Engine, caller: FunctionInfo, call_node: ast.AST, attr: str) -> bool:
    """The same decision on the symbolic normal form of the caller (a guard written through a private boolean helper,
    `not self._is_undefined("max_x")`, is inlined there): on every alternative of the call's path condition some literal
    says `<recv>.<attr> is not None` or `"<attr>" not in <recv>._optional_parameters`."""
    from . import sym
    from .rules.symutil import dnf as _dnf

    S = sym.sym_of(E.P, caller, True)
    logged = [l for l in S.log if l.kind == "call" and l.node is call_node]
    if not logged:
        return False
    for l in logged:
        for conj in _dnf(l.cond):
            ok = False
            for x in conj:
                if x[0] == "cmp" and x[1] == "IsNot" and sym.NONE in (x[2], x[3]) and any(t[0] == "attr" and t[2] == attr for t in (x[2], x[3])):
                    ok = True
                if x[0] == "cmp" and x[1] == "NotIn" and x[2] == ("const", attr) and x[3][0] == "attr" and x[3][2] == "_optional_parameters":
                    ok = True
            if not ok:
                return False
    return True


def _callers_excepted(E: Engine, f: FunctionInfo, attr: str, exceptions: dict[str, str], depth: int = 0) -> Optional[str]:
    """``f`` is a private helper and every function calling it is excepted for ``attr`` (the exception's
    reason -- how the function is reached -- then covers the helper too)."""
    if not f.name.startswith("_") or f.name.startswith("__") or depth > 2:
        return None
    sites = E.callers_of(f)
    if not sites:
        return None
    found = None
    for caller, _e in sites:
        k = f"{caller.short}|{attr}"
        if k in exceptions:
            found = k
        elif (k2 := _callers_excepted(E, caller, attr, exceptions, depth + 1)) is not None:
            found = k2
        else:
            return None
    return found


def check(E: Engine, rep: Report, rule: str, class_quals: list[str], functions: list[FunctionInfo], exceptions: dict[str, str]) -> dict:
    opt = optional_fields(E, class_quals)
    n_uses = 0
    n_guarded = 0
    for f in functions:
        fl = E.flow(f)
        ab = abstractor(fl)
        parents: dict[int, ast.AST] = {}
        for n in ast.walk(f.node):
            for ch in ast.iter_child_nodes(n):
                parents[id(ch)] = n
        for n in _own_nodes(f.node):
            if not (isinstance(n, ast.Attribute) and isinstance(n.ctx, ast.Load)):
                continue
            hit = _is_optional_use(E, fl, n, opt)
            if hit is None:
                continue
            vcu = value_context(parents, n, f.node)
            if vcu is None:
                continue
            vc, use = vcu
            n_uses += 1
            path = ab.av(use)
            key = f"{f.short}|{n.attr}"
            where = E.where(f, n)
            dnf = ab.enclosing_conditions(use)
            if use is not n:
                # guard may also sit at the definition site of the local
                dnf = [a + b for a in dnf for b in ab.enclosing_conditions(n)][:64]
            guarded = True
            # (when the Optional value reaches its use through a local, e.g. `end = d if x.tf is None else x.tf`, the guard
            #  at the definition site speaks about the attribute itself, not about the local's merged value)
            own_roots = ab.av(n).roots if use is not n else path.roots
            for conj in dnf:
                g = False
                for lit in conj:
                    if lit.atom is not None:
                        a = lit.atom
                        if a.rel == "IsNot" and "const:None" in a.rhs.roots and a.lhs.roots in (path.roots, own_roots):
                            g = True
                        if a.rel == "IsNot" and "const:None" in a.lhs.roots and a.rhs.roots in (path.roots, own_roots):
                            g = True
                        # `"<attr>" not in self._optional_parameters`: mandatory for this device class, and mandatory
                        # parameters are rejected when None at construction (same idiom as at guarded call sites)
                        if a.rel == "NotIn" and f"const:{n.attr!r}" in a.lhs.roots and any(r.endswith("._optional_parameters") for r in a.rhs.roots):
                            g = True
                    elif lit.truth is not None and lit.positive and lit.truth.roots == path.roots and not any(t.startswith("isinstance") for t in lit.truth.tags if False):
                        g = True
                if not g:
                    guarded = False
            if guarded:
                n_guarded += 1
                rep.ok(rule, key + "|" + vc.split("(")[0], f"{norm(n)} used in {vc} under a non-None guard on the same path", where)
            elif (
                isinstance(n.value, ast.Name)
                and n.value.id == fl.ctx.self_name()
                and (cg := _caller_guarded(E, f, n.attr)) is not None
            ):
                n_guarded += 1
                rep.ok(rule, key + "|" + vc.split("(")[0], f"{norm(n)} used in {vc}: {cg}", where)
            elif key in exceptions:
                rep.excepted(rule, key + "|" + vc.split("(")[0], exceptions[key], where)
            elif (ck := _callers_excepted(E, f, n.attr, exceptions)) is not None:
                # a private helper reached only from functions that hold the exception
                rep.excepted(rule, key + "|" + vc.split("(")[0], exceptions[ck] + f" [private helper {f.short}, reached only from the excepted function]", where)
            else:
                rep.violation(
                    rule, key + "|" + vc.split("(")[0],
                    f"Optional field {hit[0].split('.')[-1]}.{hit[1]} ({opt[hit]}) is used in {vc} as `{norm(n)}` without a dominating `is not None` guard on that same path "
                    f"(enclosing conditions: {[' AND '.join(l.show() for l in c) for c in dnf][:3]})",
                    where,
                )
    return {"optional_fields": len(opt), "uses_in_value_context": n_uses, "guarded": n_guarded}
