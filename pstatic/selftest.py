"""Thorough tier: the checker is tested both ways on scratch copies of the tree (DESIGN 8).

* seeded changes kept under /verif/seeded/<name>/patch.diff (written by independent agents, confirmed to
  break the property while the test suite passes) -- the check must report each of them;
* built-in mutants (small source edits computed here) -- the check must report each of them;
* benign variants (behaviour-preserving rewrites: built-in text edits, and the refactorings kept under
  /verif/benign/<name>/patch.diff, written by independent agents and confirmed by the test suite and an
  input/output digest) -- the check must stay silent.

Scratch copies live under $TMPDIR/pstatic-* and are removed when done.  The copies are only *analysed*
(check.py --root <copy>), never imported.  A variant whose anchor text is no longer present in the tree is
skipped (stale), it never raises an alarm; a missed mutant or a noisy benign variant is ANALYSIS-ERROR
(exit 2): the checker is broken, not the repository.
"""
from __future__ import annotations

import json
import os
import shutil
import subprocess
import sys
import tempfile
import time
from concurrent.futures import ThreadPoolExecutor
from typing import Optional

VERIF = os.path.dirname(os.path.dirname(os.path.abspath(__file__)))
REPO = os.environ.get("PSTATIC_REPO", "/repo")
COPY = ["pulser-core/pulser", "pulser-simulation/pulser_simulation", "docs/source/conventions.md"]


def _table() -> dict:
    with open(os.path.join(VERIF, "tables", "selftest_variants.json")) as f:
        return json.load(f)


def _make_copy(base: str) -> str:
    d = tempfile.mkdtemp(prefix="pstatic-", dir=base)
    for rel in COPY:
        src = os.path.join(REPO, rel)
        dst = os.path.join(d, rel)
        os.makedirs(os.path.dirname(dst), exist_ok=True)
        if os.path.isdir(src):
            shutil.copytree(src, dst, ignore=shutil.ignore_patterns("__pycache__", "*.pyc"))
        elif os.path.exists(src):
            shutil.copy(src, dst)
    return d


def _apply_text(root: str, v: dict) -> Optional[str]:
    """Apply a text edit {file, old, new[, count]}; returns None if applied, else the reason it is stale."""
    edits = v["edits"] if "edits" in v else [v]
    for e in edits:
        p = os.path.join(root, e["file"])
        if not os.path.exists(p):
            return f"file {e['file']} missing"
        s = open(p, encoding="utf-8").read()
        if s.count(e["old"]) != e.get("count", 1):
            return f"anchor text occurs {s.count(e['old'])}x in {e['file']} (expected {e.get('count', 1)})"
        s = s.replace(e["old"], e["new"])
        open(p, "w", encoding="utf-8").write(s)
    return None


def _apply_patch(root: str, patch: str) -> Optional[str]:
    p = subprocess.run(["git", "apply", "--whitespace=nowarn", patch], cwd=root, capture_output=True, text=True)
    if p.returncode != 0:
        return "patch does not apply: " + (p.stderr.strip().splitlines() or ["?"])[-1][:120]
    return None


def _run_check(prop: str, root: str) -> tuple[int, list[str]]:
    env = dict(os.environ, PSTATIC_EVIDENCE_DIR=os.path.join(root, "_evidence"), PSTATIC_REPO=root)
    p = subprocess.run([sys.executable, os.path.join(VERIF, "check.py"), prop, "--tier", "quick", "--root", root], cwd=VERIF, env=env, capture_output=True, text=True)
    lines = [l.strip() for l in p.stdout.splitlines() if l.startswith(("  rule=", "ANALYSIS-ERROR"))]
    return p.returncode, lines


def _one(prop: str, base: str, v: dict) -> dict:
    root = _make_copy(base)
    try:
        if "patch" in v:
            stale = _apply_patch(root, v["patch"])
        else:
            stale = _apply_text(root, v)
        if stale:
            return {"name": v["name"], "kind": v["kind"], "status": "stale", "why": stale}
        rc, lines = _run_check(prop, root)
        if v["kind"] == "benign":
            ok = rc == 0
        else:
            ok = rc == 1 and (not v.get("expect") or any(v["expect"] in l for l in lines))
        return {"name": v["name"], "kind": v["kind"], "status": "ok" if ok else "FAILED", "exit": rc, "reports": lines[:4], "expect": v.get("expect", "")}
    finally:
        shutil.rmtree(root, ignore_errors=True)


def variants_for(prop: str) -> list[dict]:
    out: list[dict] = []
    sd = os.path.join(VERIF, "seeded")
    if os.path.isdir(sd):
        for name in sorted(os.listdir(sd)):
            mp = os.path.join(sd, name, "meta.json")
            pp = os.path.join(sd, name, "patch.diff")
            if not (os.path.exists(mp) and os.path.exists(pp)):
                continue
            meta = json.load(open(mp))
            if prop in meta.get("reported_by", {}):
                out.append({"name": "seeded/" + name, "kind": "seeded", "patch": pp})
    bd = os.path.join(VERIF, "benign")
    if os.path.isdir(bd):
        # behaviour-preserving refactorings written by independent agents: no check may report any of them
        for name in sorted(os.listdir(bd)):
            pp = os.path.join(bd, name, "patch.diff")
            if os.path.exists(pp):
                out.append({"name": "benign/" + name, "kind": "benign", "patch": pp})
    t = _table()
    for v in t.get("mutants", {}).get(prop, []):
        out.append(dict(v, kind="mutant"))
    for v in t.get("benign", {}).get(prop, []):
        out.append(dict(v, kind="benign"))
    return out


def run_for(prop: str, tier: str) -> int:
    t0 = time.time()
    vs = variants_for(prop)
    base = tempfile.gettempdir()
    results = []
    with ThreadPoolExecutor(max_workers=int(os.environ.get("PSTATIC_JOBS", "12"))) as ex:
        for r in ex.map(lambda v: _one(prop, base, v), vs):
            results.append(r)
    failed = [r for r in results if r["status"] == "FAILED"]
    stale = [r for r in results if r["status"] == "stale"]
    ok = [r for r in results if r["status"] == "ok"]
    # extend the evidence written by the quick part of this run
    evp = os.path.join(os.environ.get("PSTATIC_EVIDENCE_DIR") or os.path.join(VERIF, "evidence"), f"{prop}.json")
    try:
        ev = json.load(open(evp))
        ev["tier"] = "thorough"
        cov = ev["coverage"]
        cov["selftest"] = {
            "variants": len(results), "reported_as_expected": len([r for r in ok if r["kind"] != "benign"]), "benign_silent": len([r for r in ok if r["kind"] == "benign"]),
            "stale_skipped": [r["name"] + ": " + r["why"] for r in stale], "failed": failed,
            "results": [{k: r.get(k) for k in ("name", "kind", "status", "reports")} for r in results],
            "rule": "each variant is a scratch copy of the analysed packages with one change applied (seeded patch / built-in mutant / benign rewrite) analysed with check.py --root; mutants must be reported, benign rewrites must not",
        }
        cov["evaluations"] = cov.get("evaluations", 0) + len(results)
        cov["distinct_nontrivial"] = cov.get("distinct_nontrivial", 0) + len(ok)
        cov["explanation"] += " THOROUGH: additionally the checker was run on %d changed scratch copies of the tree (%d seeded/built-in mutants reported as expected, %d benign rewrites silent, %d stale skipped)." % (len(results), cov["selftest"]["reported_as_expected"], cov["selftest"]["benign_silent"], len(stale))
        ev["wall_s"] = round(ev.get("wall_s", 0) + time.time() - t0, 3)
        json.dump(ev, open(evp, "w"), indent=1)
    except Exception as e:  # pragma: no cover
        print(f"ANALYSIS-ERROR property={prop} cannot extend evidence: {e}")
        return 2
    for r in stale:
        print(f"selftest: skipped stale variant {r['name']} ({r['why']})")
    if failed:
        for r in failed:
            what = "benign variant raised an alarm" if r["kind"] == "benign" else "mutant was not reported"
            print(f"ANALYSIS-ERROR property={prop} selftest-miss {r['name']}: {what} (exit {r.get('exit')}, expected '{r.get('expect', '')}', got {r.get('reports')})")
        return 2
    n_mut = len([r for r in ok if r["kind"] != "benign"])
    if n_mut < _table().get("floors", {}).get(prop, 1):
        print(f"ANALYSIS-ERROR property={prop} selftest: only {n_mut} applicable mutants (floor {_table().get('floors', {}).get(prop, 1)})")
        return 2
    print(f"OK property={prop} tier=thorough selftest: {n_mut} mutants reported, {len([r for r in ok if r['kind'] == 'benign'])} benign silent, {len(stale)} stale skipped, wall={round(time.time() - t0, 1)}s")
    return 0
