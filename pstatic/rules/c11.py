"""C11 -- emulation keeps states physical and follows the measurement conventions (narrow)."""
from __future__ import annotations

import ast
import os
import re

from ..absval import abstractor
from ..engine import Engine
from ..model import AnalysisError, dotted, norm
from ..report import Report
from .. import sym
from .common import own_nodes, returns
from .symutil import S, arg, branches, dnf, is_, mentions, sh, unobj, has

EXPLANATION = (
    "TYPECMP: a value whose declared type admits an array (np.ndarray / Sequence / ArrayLike) as well as a string mode literal is never compared with `==`/`!=` to a string literal in a truth context "
    "without a dominating isinstance(_, str) on the same expression (the program itself shows the safe idiom; a bare comparison on an array raises 'truth value is ambiguous' -- e.g. when the backend re-creates "
    "its config from stored options with several default evaluation times). TABLE: the measurement conventions agree between the code and the documented SPAM table: the state read as 1 is r (ground-rydberg), "
    "h (digital), d / |1> (XY) in QutipResult._weights, State.infer_one_state and EIGENSTATES (second XY state, first ground-rydberg state), and the ground-rydberg qubit vector order is reversed exactly once. "
    "SIB: both samplers flip a measured 1 with the false-negative rate and a measured 0 with the false-positive rate (np.where(bit == 1, <false-neg>, <false-pos>)), the legacy names are tied by "
    "_DIFF_NOISE_PARAMS (p_false_pos->epsilon, p_false_neg->epsilon_prime) and BitStrings passes both rates by keyword; weights are normalised by their sum. "
    "NOT decided: normalisation/positivity of evolved states, Rabi oscillation, legacy/V2 agreement (runtime numerics). SIB (added): the unflipped sample is returned only when both detection rates are zero (or none is configured); sample_final_state delegates to the overridable sample_state; set_config and add_config both keep the initial state iff the dimension is unchanged. WEIGHT: every Monte-Carlo term carries the multiplicity of its run and the sum is divided by the total. SUFFIX: a basis name that may carry '_with_error' is never tested with ==. PASS: every call of _run_solver/_noisy_runs hands over options that passed _validate_options. UNIT: the total duration is converted from ns to us by one idiom everywhere in the emulator."
    " Round 4 (added): the observables' own evaluation times are merged into the solver times under a condition that does not depend on default_evaluation_times; the V2 states are labelled with the emulator's Hamiltonian.eigenbasis (KNOWN finding: they are not); the single-run shortcut of QutipEmulator.run and QutipBackendV2.run is taken under the same condition and excludes every noise type _noisy_runs redraws; the legacy time lookup returns the closest stored time or uses a tolerance below half a grid step (KNOWN finding: first match within a whole step)."
    " Round 5 (added): the bad-atom mask is read off the bit characters (no str->bool cast); the V2 config holds the emulated noise model; the initial state's eigenstate order is honoured; results are stored at configured times (KNOWN); single-pass bitstring conversion."
    " Round 6 (added after the fifth independent round of breaking changes): the initial state's eigenstates are compared as ordered tuples (no set / sorted / Counter); in the configuration rebuilt around the emulated noise model the 'noise_model' key follows the ** spread of the user's options."
    " Round 7 (added after the sixth, smaller round of breaking changes): an undriven XY sequence is named 'XY' by Hamiltonian._get_basis_name; _build_collapse_operators resets self._collapse_ops before filling it; QutipEmulator._noiseless_hamiltonian is built from self.samples_obj at self._sampling_rate."
)
ASSUMPTIONS = ["declared types come from annotations; numpy arrays are recognised by their annotation names", "the unflipped-return rule reads the alternatives of the symbolic return value (pstatic/sym.py); the convention tables are compared with the literals of the source and of docs/source/conventions.md"]

ARRAYISH = ("ndarray", "ArrayLike", "AbstractArray", "TensorLike")


def _arrayish(t: frozenset) -> bool:
    for a in t:
        if a[0] in ("list", "tuple"):
            return True
        if a[0] == "ext" and a[1].split(".")[-1] in ARRAYISH:
            return True
        if a[0] == "inst" and a[1].split(".")[-1] in ARRAYISH:
            return True
    return False


def rebuilt_config_noise_model_wins(E: Engine, rep: Report, rule: str) -> None:
    """In the configuration QutipBackendV2 rebuilds around the emulated noise model, the `noise_model` entry must win
    over the user's options: in a dict display later keys override earlier ones, so it follows every ** spread."""
    f = E.fn("pulser_simulation.qutip_backend.QutipBackendV2.__init__")
    for l in S(E, f, inline=False).logged("store"):
        if l.target != ("attr", ("name", "self"), "_config") or l.value is None:
            continue
        for d in [t for t in sym.subterms(l.value) if t[0] == "dict"]:
            keys = [kv[0] for kv in d[1:]]
            if ("const", "noise_model") in keys and ("const", "**") in keys:
                i_nm = max(i for i, k in enumerate(keys) if k == ("const", "noise_model"))
                i_sp = max(i for i, k in enumerate(keys) if k == ("const", "**"))
                rep.check(i_nm > i_sp, rule, "QutipBackendV2.__init__|emulated-noise-model-overrides-the-user's-options", "'noise_model' follows the ** spread of the user's options",
                          f"the configuration is rebuilt from `{sh(d, 120)}`: the spread of the user's options comes after the 'noise_model' key and overrides it, so the observables (BitStrings: p_false_pos / p_false_neg) read the user's noise model while the emulator runs the device's", E.where(f, l.node))


def run(E: Engine, rep: Report, tier: str) -> dict:
    P = E.P
    # ------------------------------------------------------------ TYPECMP
    n_cmp = 0
    for f in P.all_functions():
        if f.kind == "overload" or not f.module.name.startswith(("pulser.backend", "pulser_simulation", "pulser.result", "pulser.noise_model")):
            continue
        fl = E.flow(f)
        ab = None
        for n in own_nodes(f):
            if not (isinstance(n, ast.Compare) and len(n.ops) == 1 and isinstance(n.ops[0], (ast.Eq, ast.NotEq))):
                continue
            sides = [n.left, n.comparators[0]]
            lit = [s for s in sides if isinstance(s, ast.Constant) and isinstance(s.value, str)]
            other = [s for s in sides if not (isinstance(s, ast.Constant) and isinstance(s.value, str))]
            if len(lit) != 1 or len(other) != 1:
                continue
            t = E.R.type_of(other[0], fl.ctx)
            if not (("str",) in t and _arrayish(t)):
                continue
            n_cmp += 1
            ab = ab or abstractor(fl)
            dnf_ = ab.enclosing_conditions(n)
            text = norm(other[0])
            guarded = all(any(l.truth is not None and l.positive and l.text.replace(" ", "").startswith(f"isinstance({text},".replace(" ", "")) and "str" in l.text for l in c) for c in dnf_)
            key = f"{f.short}|{text}|{type(n.ops[0]).__name__}|{lit[0].value}"
            rep.check(guarded, "TYPECMP", key, f"`{norm(n)}` evaluated only after isinstance({text}, str)",
                      f"`{norm(n)}`: `{text}` is declared as {sorted(a[0] + (':' + a[1].split('.')[-1] if len(a) > 1 and isinstance(a[1], str) else '') for a in t)} -- when it holds an array the comparison yields an array and its truth value raises ValueError; guard it with isinstance({text}, str) as the other call sites do", E.where(f, n))
    rep.floor("TYPECMP", 3)

    # -------------------------------------------------------------- TABLE
    chm = P.module("pulser.channels.base_channel")
    eig = P.fold(chm, chm.assigns["EIGENSTATES"])
    w = E.fn("pulser_simulation.qutip_result.QutipResult._weights")
    from .symutil import finite_maps

    Sw = S(E, w)
    one = None
    for l in Sw.log:
        for t_ in (l.value, l.target):
            if t_ is None:
                continue
            for subj, tab in finite_maps(t_):
                if sym.contains(subj, sym.Pattern("self.meas_basis").term) and tab and all(v[0] == "const" for v in tab.values()):
                    one = {k: v[1] for k, v in tab.items()}
    if one is None:
        raise AnalysisError("anchor: the measurement-basis -> one-state table of QutipResult._weights was not found")
    want = {"ground-rydberg": "r", "digital": "h", "XY": "d"}
    rep.check(one == want, "TABLE", "QutipResult._weights|one_state_dict", f"{one}", f"one-state table = {one}; the documented convention is {want}", E.where(w))
    ios = E.fn("pulser.backend.state.State.infer_one_state")
    Sio = S(E, ios)
    table = {}
    for subj, tab in finite_maps(Sio.ret_full if getattr(Sio, "ret_full", None) is not None else Sio.ret):
        if sym.contains(subj, sym.Pattern("self.eigenstates").term):
            for k, v in tab.items():
                if isinstance(k, frozenset) and v[0] == "const":
                    table[k] = v[1]
    if not table:
        raise AnalysisError("anchor: the eigenstates -> one-state table of State.infer_one_state was not found")
    for b, st in eig.items():
        got = table.get(frozenset(st))
        rep.check(got == want[b], "TABLE", f"State.infer_one_state|{b}", f"{sorted(st)} -> {got}", f"infer_one_state maps eigenstates {sorted(st)} to '{got}', the convention for {b} is '{want[b]}'", E.where(ios))
    rep.check(table.get(frozenset({"0", "1"})) == "1", "TABLE", "State.infer_one_state|0-1", "{'0','1'} -> '1'", "infer_one_state no longer maps {'0','1'} to '1'", E.where(ios))
    doc_path = os.path.join(P.root, "docs", "source", "conventions.md")
    if os.path.exists(doc_path):
        doc = open(doc_path, encoding="utf-8").read()
        ok = re.search(r"ground-rydberg``.*?\|r\\rangle \\rightarrow 1", doc, re.S) and re.search(r"digital``.*?\|h\\rangle \\rightarrow 1", doc, re.S) and re.search(r"XY``.*?\|1\\rangle \\rightarrow 1", doc, re.S)
        rep.check(bool(ok), "TABLE", "docs|spam-table", "documented: r->1, h->1, |1>->1", "the documented SPAM table changed", "docs/source/conventions.md")
    # ground-rydberg vector order reversed exactly once in the 2-level branch
    rw = S(E, w).ret
    if rw is None:
        raise AnalysisError("anchor: QutipResult._weights returns nothing")
    revs = {m_["@"] for m_ in sym.find_all(rw, sym.Pattern("Q_p[::-1]"))}
    cond_revs = {m_["Q_p"] for m_ in sym.find_all(rw, sym.Pattern("Q_p[::-1] if self.meas_basis == 'ground-rydberg' else Q_p"))}
    ok = len(revs) == 1 and len(cond_revs) == 1 and all(r_[1] in cond_revs for r_ in revs)
    rep.check(ok, "TABLE", "QutipResult._weights|reverse-only-ground-rydberg", "qubit probabilities reversed iff measuring in ground-rydberg (r is the first vector but reads 1)", f"the reversal of the two-level probabilities changed ({len(revs)} reversal(s), {len(cond_revs)} conditioned on meas_basis == 'ground-rydberg')", E.where(w))
    nrm = is_(rw, "Q_w / sum(Q_w)") is not None or is_(rw, "Q_w / np.sum(Q_w)") is not None or is_(rw, "Q_w / Q_w.sum()") is not None
    rep.check(nrm, "TABLE", "QutipResult._weights|normalised", "weights / sum(weights)", "sampling weights are no longer normalised", E.where(w))
    bp = E.fn("pulser_simulation.qutip_state.QutipState.bitstring_probabilities")
    keys_ = [l.target[2] for l in S(E, bp).logged("aug", "store") if l.target is not None and l.target[0] == "idx"]
    ok = False
    for k_ in keys_:
        ones = [m_ for m_ in sym.find_all(k_, sym.Pattern("Q_s.replace(Q_one, '1')"))]
        zeros = [m_ for m_ in sym.find_all(k_, sym.Pattern("Q_s.replace(Q_z, '0')"))]
        for mo in ones:
            for mz in zeros:
                z = mz["Q_z"]
                ok = ok or (z[0] == "elem" and is_(unobj(z[1]), "set(self.eigenstates) - {Q_one}", {"Q_one": mo["Q_one"]}) is not None and sym.contains(mo["Q_one"], sym.Pattern("self.infer_one_state()").term))
    # the conversion is done in ONE pass over all eigenstates (str.translate with a table eigenstate -> '1' if it is the
    # one-state else '0'): chained str.replace calls overwrite the bits written first when an eigenstate is itself named
    # '0' or '1'
    chained = ok
    for k_ in keys_:
        for t in sym.subterms(k_):
            if t[0] == "call" and t[1][0] == "attr" and t[1][2] == "translate" and t[2]:
                m_ = has(t[2][0], "'1' if Q_e == Q_one else '0'")
                ok = ok or (m_ is not None and sym.contains(m_["Q_one"], sym.Pattern("self.infer_one_state()").term) and mentions(t[2][0], "eigenstates"))
    if chained:
        rep.violation("TABLE", "QutipState.bitstring_probabilities|single-pass-conversion", "bitstring_probabilities converts the state labels with chained str.replace (one-state -> '1', then every other eigenstate -> '0'): with eigenstates ('0', '1') and one_state='0' the freshly written '1's are overwritten ('01' -> '11' -> '00')", E.where(bp))
    rep.check(ok, "TABLE", "QutipState.bitstring_probabilities|one->1-others->0", "the one-state reads 1, every other eigenstate reads 0", "bitstring conversion changed: the key must replace the inferred one-state by '1' and every other eigenstate by '0'", E.where(bp))
    # every option of the configuration a backend accepts is consumed by that backend (an option that is accepted and
    # then ignored -- e.g. the sampling rate -- makes the two backends emulate different things for the same input)
    ecfg = E.cls("pulser.backend.config.EmulatorConfig")
    legacy = E.cls("pulser_simulation.qutip_backend.QutipBackend")
    legacy_reads = {n.attr for fs in legacy.methods.values() for f in fs for n in ast.walk(f.node) if isinstance(n, ast.Attribute) and isinstance(n.ctx, ast.Load)}
    for _k, fld in P.dataclass_fields(ecfg):
        if fld.name == "backend_options":
            continue  # the container of the other options
        rep.check(fld.name in legacy_reads, "TABLE", f"QutipBackend|config-option-consumed|{fld.name}", "the legacy backend reads this EmulatorConfig option", f"QutipBackend never reads EmulatorConfig.{fld.name}: the option is accepted and silently ignored (the emulation then differs from QutipBackendV2 / QutipEmulator given the same value)", E.where_mod(legacy.module.relpath, legacy.node))
    v2c = E.cls("pulser_simulation.qutip_backend.QutipBackendV2")
    v2_scope = [v2c, E.cls("pulser_simulation.qutip_config.QutipConfig"), E.cls("pulser.backend.config.EmulationConfig")]
    v2_reads = {n.attr for c_ in v2_scope for fs in c_.methods.values() for f in fs if f.name != "__init__" for n in ast.walk(f.node) if isinstance(n, ast.Attribute) and isinstance(n.ctx, ast.Load)}
    v2_reads |= {n.attr for fs in v2c.methods.values() for f in fs for n in ast.walk(f.node) if isinstance(n, ast.Attribute) and isinstance(n.ctx, ast.Load)}
    opts = [a_.arg for q_ in ("pulser.backend.config.EmulationConfig.__init__", "pulser_simulation.qutip_config.QutipConfig.__init__") for a_ in E.fn(q_).node.args.kwonlyargs]
    for o_ in sorted(set(opts)):
        if o_ == "interaction_matrix":
            rep.excepted("TABLE", f"QutipBackendV2|config-option-consumed|{o_}", "a custom interaction matrix is an option of the generic EmulationConfig that the QuTiP backend does not implement", E.where_mod(v2c.module.relpath, v2c.node))
            continue
        rep.check(o_ in v2_reads, "TABLE", f"QutipBackendV2|config-option-consumed|{o_}", "read by the V2 backend or by the configuration methods it calls", f"neither QutipBackendV2 nor the configuration's own methods read the option `{o_}`: it is accepted and silently ignored", E.where_mod(v2c.module.relpath, v2c.node))
    # one time base in the V2 backend: relative evaluation times are scaled by the emulator's own total duration
    # (which includes the modulation fall time), the same duration the Results object is built with
    v2i = E.fn("pulser_simulation.qutip_backend.QutipBackendV2.__init__")
    lg = S(E, v2i).calls("_get_legacy_evaluation_times")
    if not lg:
        raise AnalysisError("anchor: QutipBackendV2.__init__ no longer calls _get_legacy_evaluation_times")
    for l in lg:
        a0 = arg(l, 0, "total_duration_ns")
        ok_d = a0 is not None and is_(unobj(a0), "Q_s.total_duration_ns") is not None and sym.contains(a0, ("attr", ("name", "self"), "_sim_obj"))
        rep.check(ok_d, "TABLE", "QutipBackendV2.__init__|evaluation-times-scaled-by-emulator-duration", "relative times * self._sim_obj.total_duration_ns", f"QutipBackendV2 converts the relative evaluation times with `{sh(a0, 80) if a0 is not None else '?'}` instead of the emulator's total duration (self._sim_obj.total_duration_ns, which includes the modulation fall time): intermediate times are mislabelled and never stored when the output is modulated", E.where(v2i, l.node))
    # the evaluation times the observables ask for themselves are merged into the solver's times whatever the default
    # is ("Full", the final time, an explicit list): the merge is conditioned on their presence only
    glt = E.method("pulser_simulation.qutip_config.QutipConfig", "_get_legacy_evaluation_times")
    Sg11 = S(E, glt)
    collects = [l for l in Sg11.log if l.kind == "call" and l.target is not None and l.target[0] == "attr" and l.target[2] in ("update", "add", "extend", "append") and l.value[2] and mentions(l.value[2][0], "evaluation_times")]
    # (the collecting container: a local created empty and filled in the loop over the observables)
    extras = {t for l in Sg11.log for v in (l.value, l.cond) if v is not None for t in sym.subterms(v) if t[0] == "obj" and unobj(t) in (("call", ("name", "set"), (), ()), ("call", ("name", "list"), (), ()), ("list",), ("set",))}
    if not collects:
        # ... or built by one comprehension over the observables
        extras = {t for l in Sg11.log for v in (l.value, l.cond) if v is not None for t in sym.subterms(v) if t[0] == "comp" and mentions(t, "evaluation_times") and mentions(t, "observables")}
        extras = {t for t in extras if not any(t != u and sym.contains(u, t) for u in extras)}
        collects = list(extras)
    if not extras or not collects:
        raise AnalysisError("anchor: QutipConfig._get_legacy_evaluation_times no longer collects the observables' evaluation_times")
    merges = [l for l in Sg11.log if l.kind == "call" and any(any(sym.contains(a_, e_) for e_ in extras) for a_ in list(l.value[2]) + [v for _k, v in l.value[3]]) and not any(l.target is not None and l.target[0] == "attr" and l.target[1] == e_ for e_ in extras)
              and not (l.value[1] in (("name", "list"), ("name", "sorted"), ("name", "tuple"), ("name", "len"), ("name", "bool")))]
    if not merges:
        rep.excepted("TABLE", "QutipConfig._get_legacy_evaluation_times|observable-times-merged-for-every-default", "no call combining the observables' times with the default times was recognised: not decided", E.where(glt))
    for i_, l in enumerate(merges):
        dep = [x for x in sym.conj_of(l.cond) if mentions(x, "default_evaluation_times")]
        rep.check(not dep, "TABLE", f"QutipConfig._get_legacy_evaluation_times|observable-times-merged-for-every-default|{i_}", "merged whenever some observable has its own times",
                  f"the observables' own evaluation times are merged (`{sh(l.value, 80)}`) only under `{[sh(x, 80) for x in dep]}`: with another default (the final time, an explicit list) they never reach the solver, so those observables are silently evaluated at the default times only", E.where(glt, l.node))
    # the states the V2 backend hands to the observables are labelled with the basis the emulator works in
    # (Hamiltonian.eigenbasis: the addressed states, plus "x" with leakage), not with the basis of the samples alone
    v2run = E.fn("pulser_simulation.qutip_backend.QutipBackendV2.run")
    qs = [l for l in S(E, v2run).calls("QutipState")]
    if not qs:
        raise AnalysisError("anchor: QutipBackendV2.run no longer builds QutipState objects")
    labels = {arg(l, 1, "eigenstates") for l in qs}
    from_ham = all(a_ is not None and mentions(a_, "_hamiltonian") and mentions(a_, "eigenbasis") for a_ in labels)
    rep.check(from_ham, "TABLE", "QutipBackendV2.run|states-labelled-with-the-emulator-basis", "QutipState(..., eigenstates=<the emulator's Hamiltonian.eigenbasis>)",
              f"QutipBackendV2.run labels the emulated states with `{[sh(a_, 60) if a_ is not None else '?' for a_ in labels]}`: the emulator's states live in Hamiltonian.eigenbasis (which includes the leakage state 'x' when with_leakage is set), so with leakage noise the V2 backend raises 'shape (3, 3) is incompatible with a system of 2-level qudits' where the legacy emulator runs", E.where(v2run, qs[0].node))
    # one solver run suffices only when no noise is redrawn per run: the shortcut of QutipEmulator.run() and of
    # QutipBackendV2.run() is taken under the same condition, and that condition excludes every noise type for which
    # _noisy_runs() loops over fresh draws
    leg_run = E.fn("pulser_simulation.simulation.QutipEmulator.run")
    nz = E.fn("pulser_simulation.simulation.QutipEmulator._noisy_runs")

    def _shortcut(f_):
        cs = [l.cond for l in S(E, f_, inline=False).calls("_run_solver")]
        if not cs:
            raise AnalysisError(f"anchor: {f_.short} no longer calls _run_solver")
        sim_cfg = sym.Pattern("self._sim_obj.config").term
        return sym.subst(cs[0], lambda t: sym.Pattern("self.config").term if t == sim_cfg else None)

    c_leg, c_v2 = _shortcut(leg_run), _shortcut(v2run)
    rep.check(set(sym.conj_of(c_leg)) == set(sym.conj_of(c_v2)), "TABLE", "single-run-shortcut|legacy==V2", "QutipEmulator.run and QutipBackendV2.run take the single-run shortcut under the same condition",
              f"the legacy emulator solves once under `{sh(c_leg, 200)}`, the V2 backend under `{sh(c_v2, 200)}`: for the configurations in between one of them averages over `runs` random draws and the other returns a single draw", E.where(leg_run))
    redrawn = {x[2][1] for l in S(E, nz, inline=False).log for x in sym.subterms(l.cond) if x[0] == "cmp" and x[1] == "In" and x[2][0] == "const" and isinstance(x[2][1], str) and mentions(x[3], "noise")}
    redrawn |= {x[2][1] for l in S(E, nz, inline=False).logged("test") for x in sym.subterms(l.value) if x[0] == "cmp" and x[1] == "In" and x[2][0] == "const" and isinstance(x[2][1], str) and mentions(x[3], "noise")}
    if not redrawn:
        raise AnalysisError("anchor: QutipEmulator._noisy_runs no longer tests noise types")
    excluded = {x[2][1] for c_ in sym.conj_of(c_leg) for x in sym.subterms(c_) if x[0] == "cmp" and x[1] == "NotIn" and x[2][0] == "const" and mentions(x[3], "noise")}
    for nt_ in sorted(redrawn):
        rep.check(nt_ in excluded, "TABLE", f"single-run-shortcut|excludes-{nt_}", f"'{nt_}' (redrawn per run in _noisy_runs) rules the shortcut out", f"_noisy_runs redraws the '{nt_}' noise on every run, but QutipEmulator.run() takes the single-run shortcut without testing for it (excluded: {sorted(excluded)}): a configuration with '{nt_}' noise alone is solved once with a single random draw and `runs` is ignored", E.where(leg_run))
    # a stored time is looked up at its own index: the legacy results answer get_state(t) / sample_state(t) with the
    # CLOSEST stored time (argmin), or with a tolerance below half the 1 ns grid step -- "first time within one whole
    # step" also matches the previous grid point whenever the float difference falls just under the step
    git_ = E.fn("pulser_simulation.simresults.SimulationResults._get_index_from_time")
    r_git = S(E, git_).ret
    closest = r_git is not None and any(t[0] == "call" and t[1][0] == "attr" and t[1][2] in ("argmin", "nanargmin") for t in sym.subterms(r_git))
    tol_def = git_.param_defaults().get("tol")
    small_tol = isinstance(tol_def, ast.Constant) and isinstance(tol_def.value, float) and tol_def.value <= 0.5e-3
    rep.check(closest or small_tol, "TABLE", "SimulationResults._get_index_from_time|closest-stored-time", "index of the closest stored time (argmin), or default tolerance <= half a grid step",
              f"_get_index_from_time returns `{sh(r_git, 100)}` with default tolerance {ast.unparse(tol_def) if tol_def is not None else '?'} us = one full step of the 1 ns grid: the first stored time within a whole step can be the previous grid point, so a stored time is answered with its neighbour's state", E.where(git_))
    # ---- round 5 (independent audit) ----
    # (a) the bad-atom mask of a run is read off the drawn bitstring character by character (`== "1"`): a str -> bool cast
    #     (`np.array(list(s)).astype(bool)`) is True for every non-empty string, i.e. every atom badly prepared
    nz5 = E.fn("pulser_simulation.simulation.QutipEmulator._noisy_runs")
    bad_st = [l for l in S(E, nz5, inline=False).logged("store") if l.target is not None and l.target[0] == "attr" and l.target[2] == "_bad_atoms"]
    if not bad_st:
        raise AnalysisError("anchor: QutipEmulator._noisy_runs no longer sets _hamiltonian._bad_atoms")
    for l in bad_st:
        cast_ = any(t[0] == "call" and t[1][0] == "attr" and t[1][2] == "astype" and t[2] and t[2][0] == ("name", "bool") and any(u[0] == "call" and u[1] == ("name", "list") for u in sym.subterms(t[1][1])) for t in sym.subterms(l.value))
        rep.check(not cast_, "TABLE", "QutipEmulator._noisy_runs|bad-atoms-from-bit-characters", "mask = (characters == '1')", f"the bad-atom mask is `{sh(l.value, 100)}`: casting the characters '0'/'1' to bool gives True for both (a non-empty string is truthy), so with a state-preparation error every atom is switched off in every run", E.where(nz5, l.node))
    # (b) the configuration the V2 observables read their detection-error rates from holds the noise model that is
    #     emulated (the device's default one when prefer_device_noise_model is set)
    v2i5 = E.fn("pulser_simulation.qutip_backend.QutipBackendV2.__init__")
    S5 = S(E, v2i5, inline=False)
    prefers = any(mentions(l.cond, "prefer_device_noise_model") or (l.value is not None and mentions(l.value, "prefer_device_noise_model")) for l in S5.log)
    cfg_store = [l for l in S5.logged("store") if l.target == ("attr", ("name", "self"), "_config") and l.value is not None and mentions(l.value, "noise_model")]
    rep.check((not prefers) or any(mentions(l.value, "default_noise_model") or mentions(l.cond, "noise_model") for l in cfg_store), "TABLE", "QutipBackendV2.__init__|config-holds-the-emulated-noise-model", "self._config is rebuilt with the emulated noise model when it differs from the user's", "with prefer_device_noise_model the device's default noise model goes to the emulator only: self._config.noise_model stays the user's, and BitStrings takes p_false_pos / p_false_neg from it, so the detection errors of the emulated model are dropped (the legacy backend applies them)", E.where(v2i5))
    rebuilt_config_noise_model_wins(E, rep, "TABLE")
    # (c) the initial state's own eigenstate order is honoured: V2 hands `initial_state.to_qobj()` to the emulator, whose
    #     basis order is Hamiltonian.eigenbasis -- a state given with eigenstates ('g', 'r') must be permuted (or refused)
    init_calls = [l for l in S5.calls("set_initial_state")]
    uses_order = any(mentions(l.cond, "eigenstates") or any(mentions(a_, "eigenstates") or mentions(a_, "eigenbasis") for a_ in l.value[2]) for l in init_calls) or any(l.kind == "raise" and mentions(l.cond, "eigenstates") for l in S5.log)
    # ... and the comparison is one of ORDER: a set / sorted / Counter comparison accepts ('g', 'r') for ('r', 'g') and the
    #     amplitudes are then read in the wrong order
    for l in S5.log:
        if l.kind == "raise" and mentions(l.cond, "eigenstates"):
            unordered = [t for c_ in sym.conj_of(l.cond) if mentions(c_, "eigenstates") for t in sym.subterms(c_) if t[0] == "call" and t[1] in (("name", "set"), ("name", "frozenset"), ("name", "sorted"), ("name", "Counter"), ("attr", ("name", "collections"), "Counter")) and t[2] and mentions(t[2][0], "eigenstates")]
            rep.check(not unordered, "TABLE", "QutipBackendV2.__init__|initial-state-eigenstates-compared-in-order", "the eigenstates are compared as ordered tuples (or the state is permuted)",
                      f"the initial state's eigenstates are compared through `{sh(unordered[0], 80) if unordered else ''}`: an order-insensitive test accepts a state given in ('g', 'r') order, whose amplitudes are then read in the emulator's ('r', 'g') order -- |rg> is emulated as |gr>", E.where(v2i5, l.node))
    rep.check(uses_order or not init_calls, "TABLE", "QutipBackendV2.__init__|initial-state-in-the-emulator's-eigenstate-order", "the initial state's eigenstates are compared with / permuted into the emulator's order", "QutipBackendV2 passes config.initial_state.to_qobj() straight to the emulator and drops the state's own `eigenstates` order: a state built with eigenstates ('g', 'r') and amplitudes {'gr': 1.0} is read in the emulator's ('r', 'g') order, so |g> becomes |r> (an all-zero drive 'changes' the state)", E.where(v2i5, init_calls[0].node if init_calls else None))
    # (d) a result is stored under the relative time that was configured: the V2 run reads `evaluation_time` back from the
    #     legacy results, i.e. r * T / 1000 converted back with / (T / 1000), which is not always r again
    v2r5 = S(E, v2run, inline=False)
    t_args = [dict(l.value[3]).get("t") for l in v2r5.log if l.kind == "call" and l.value[3] and dict(l.value[3]).get("t") is not None and dict(l.value[3]).get("result") is not None]
    raw_t = [t_ for t_ in t_args if unobj(t_)[0] == "attr" and unobj(t_)[2] == "evaluation_time"]
    rep.check(bool(t_args) and not raw_t, "TABLE", "QutipBackendV2.run|results-stored-at-configured-times", "t handed to the observables is a configured relative time", "QutipBackendV2.run stores every result under `qutip_res.evaluation_time`, the relative time converted to microseconds for the solver and back: r = 0.9 with T = 10 ns comes back as 0.8999999999999999, so Results.get_result('state', 0.9) raises although that time was configured", E.where(v2run))
    # (e) with no driven basis the emulation basis follows the mode of the sequence: XY samples live in (u, d) -- the
    #     siblings SequenceSamples.eigenbasis and the interaction say XY, so the basis NAME (which selects the default
    #     measurement basis and the bit convention) must too
    gbn = E.fn("pulser_simulation.hamiltonian.Hamiltonian._get_basis_name")
    r_b = S(E, gbn, inline=False).ret
    rep.check(r_b is not None and mentions(r_b, "_in_xy") and any(t == ("const", "XY") for t in sym.subterms(r_b)), "TABLE", "Hamiltonian._get_basis_name|undriven-xy-sequence-is-XY", "no used basis: 'XY' if the samples are in XY mode, else 'ground-rydberg'",
              f"Hamiltonian._get_basis_name returns `{sh(r_b, 140) if r_b is not None else None}`: an XY sequence whose drive is all zero (delays only) is named 'ground-rydberg' while its states live in (u, d) -- the untouched |uu> is read with the r-first convention and samples as '11' instead of '00'", E.where(gbn))
    # (f) the collapse operators are REBUILT by every configuration: the list is reset before it is filled (set_config /
    #     add_config on an emulator that already has a dissipative model would otherwise double every decay rate)
    bco = E.fn("pulser_simulation.hamiltonian.Hamiltonian._build_collapse_operators")
    lg = S(E, bco, inline=False).log
    co = ("attr", ("name", "self"), "_collapse_ops")
    i_reset = [i for i, l in enumerate(lg) if l.kind == "store" and l.target == co and l.value is not None and not sym.contains(l.value, co) and not l.loops]
    i_grow = [i for i, l in enumerate(lg) if (l.kind == "aug" and l.target == co) or (l.kind == "store" and l.target == co and l.value is not None and sym.contains(l.value, co)) or (l.kind == "call" and l.target is not None and l.target[0] == "attr" and l.target[2] in ("extend", "append", "insert") and unobj(l.target[1]) == co)]
    if i_grow:
        rep.check(bool(i_reset) and min(i_reset) < min(i_grow), "TABLE", "Hamiltonian._build_collapse_operators|list-reset-before-it-is-filled", "self._collapse_ops = <fresh list> precedes the accumulation",
                  "Hamiltonian._build_collapse_operators adds the operators of the new configuration to self._collapse_ops without resetting it: a second set_config / add_config keeps the operators of the previous model too, so decay rates double (P_r = 0.129 instead of exp(-1) after 2 us at rate 0.5) and the emulator disagrees with a freshly built one", E.where(bco))
    else:
        rep.check(bool(i_reset), "TABLE", "Hamiltonian._build_collapse_operators|list-reset-before-it-is-filled", "self._collapse_ops is assigned a fresh list", "self._collapse_ops is no longer assigned in _build_collapse_operators", E.where(bco))
    # (g) the noiseless Hamiltonian handed to the observables is the emulated one without noise: same samples, qubits and
    #     sampling rate as the emulator's own
    nlh = E.fn("pulser_simulation.simulation.QutipEmulator._noiseless_hamiltonian")
    hc = [l for l in S(E, nlh, inline=False).log if l.kind == "call" and l.value[1] == ("name", "Hamiltonian")]
    if not hc:
        raise AnalysisError("anchor: QutipEmulator._noiseless_hamiltonian no longer builds a Hamiltonian")
    a_ = hc[-1].value[2]
    kw_ = dict(hc[-1].value[3])
    sr_ = a_[3] if len(a_) > 3 else kw_.get("sampling_rate")
    so_ = a_[0] if a_ else kw_.get("samples_obj")
    rep.check(sr_ == ("attr", ("name", "self"), "_sampling_rate") and so_ == ("attr", ("name", "self"), "samples_obj"), "TABLE", "QutipEmulator._noiseless_hamiltonian|same-samples-and-sampling-rate", "Hamiltonian(self.samples_obj, ..., self._sampling_rate, <noiseless model>)",
              f"the noiseless Hamiltonian is built from samples `{sh(so_, 40) if so_ is not None else None}` at sampling rate `{sh(sr_, 40) if sr_ is not None else None}`: with sampling_rate < 1 the emulation runs on the sub-sampled, interpolated Hamiltonian, so Energy / EnergyVariance are computed with a different H(t) from the one that produced the state", E.where(nlh))
    rep.floor("TABLE", 31)

    # ---------------------------------------------------------------- SIB
    s1 = E.fn("pulser_simulation.simresults.CoherentResults.sample_state")
    s2 = E.fn("pulser_simulation.qutip_state.QutipState.sample")
    ab1 = abstractor(E.flow(s1))
    def rate_name(t) -> str:
        """Name of the rate a term denotes: a parameter name, an attribute, or the constant key of `d["key"]`."""
        t = unobj(t)
        if t[0] == "name":
            return t[1]
        if t[0] == "idx" and t[2][0] == "const":
            return str(t[2][1])
        if t[0] == "attr":
            return t[2]
        return sh(t, 40)

    for f, neg, pos in ((s1, "epsilon_prime", "epsilon"), (s2, "p_false_neg", "p_false_pos")):
        ok = False
        got = None
        for l in S(E, f).calls("where"):
            m_ = is_(l.value, "np.where(Q_b == 1, Q_neg, Q_pos)")
            if m_ is not None:
                got = (rate_name(m_["Q_neg"]), rate_name(m_["Q_pos"]))
                ok = got == (neg, pos)
        # one independent random number per measured bit: the draw has the shape of the flip-probability array
        # (a (shots, 1) draw broadcast over the qudits would flip all bits of a shot together)
        ok_shape = False
        shape_seen = "no comparison of a random draw with the flip probabilities found"
        for l in S(E, f).log:
            if l.value is None:
                continue
            for t in sym.subterms(l.value):
                if not (t[0] == "cmp" and t[1] == "Lt"):
                    continue
                for draw, fp in ((t[2], t[3]), (t[3], t[2])):
                    if not any(x[0] == "call" and x[1][0] == "attr" and x[1][2] == "where" for x in sym.subterms(fp)):
                        continue
                    d_ = unobj(draw)
                    if d_[0] != "call" or not (d_[1][0] == "attr" and d_[1][2] in ("uniform", "random", "random_sample", "rand")):
                        continue
                    size = dict(d_[3]).get("size") or (d_[2][0] if d_[2] else None)
                    size = unobj(size) if size is not None else None
                    shape_seen = sh(size, 80) if size is not None else "no size"
                    if size is not None and size == ("attr", fp, "shape"):
                        ok_shape = True
                    elif size is not None and size[0] == "tuple" and len(size) == 3 and all(c_[0] != "const" for c_ in size[1:]):
                        ok_shape = True
        rep.check(ok_shape, "SIB", f"{f.short}|one-random-number-per-bit", "the uniform draw has the shape of the flip-probability array", f"{f.short}: the random numbers compared with the flip probabilities are drawn with size `{shape_seen}`: unless there is one independent number per shot and per qudit, the detection errors of one shot are correlated (all bits flip together)", E.where(f))
        rep.check(ok, "SIB", f"{f.short}|flip=where(bit==1,false-neg,false-pos)", f"a measured 1 flips with {neg}, a measured 0 with {pos}", f"{f.short}: np.where(bit == 1, {got[0] if got else '?'}, {got[1] if got else '?'}) -- a measured 1 must flip with the false-negative rate ({neg}) and a measured 0 with the false-positive rate ({pos})", E.where(f))
    scm = P.module("pulser_simulation.simconfig")
    diff = P.fold(scm, scm.assigns["_DIFF_NOISE_PARAMS"])
    rep.check(diff.get("p_false_pos") == "epsilon" and diff.get("p_false_neg") == "epsilon_prime" and diff.get("state_prep_error") == "eta", "SIB", "_DIFF_NOISE_PARAMS|legacy-names", "p_false_pos->epsilon, p_false_neg->epsilon_prime, state_prep_error->eta", f"_DIFF_NOISE_PARAMS = {diff}", E.where_mod(scm.relpath, scm.assigns["_DIFF_NOISE_PARAMS"]))
    sd = [f for f in P.cls("pulser_simulation.simconfig.SimConfig").methods["spam_dict"]][0]
    d = None
    for r in returns(sd):
        if isinstance(r.value, ast.Dict):
            d = {k.value: norm(v) for k, v in zip(r.value.keys, r.value.values) if isinstance(k, ast.Constant)}
    rep.check(d == {"eta": "self.eta", "epsilon": "self.epsilon", "epsilon_prime": "self.epsilon_prime"}, "SIB", "SimConfig.spam_dict|names", f"{d}", f"spam_dict = {d}", E.where(sd))
    bs = E.fn("pulser.backend.default_observables.BitStrings.apply")
    kws = {}
    for n in own_nodes(bs):
        if isinstance(n, ast.Call) and isinstance(n.func, ast.Attribute) and n.func.attr == "sample":
            kws = {k.arg: norm(k.value) for k in n.keywords}
    rep.check(kws.get("p_false_pos", "").endswith(".p_false_pos") and kws.get("p_false_neg", "").endswith(".p_false_neg"), "SIB", "BitStrings.apply|rates-by-keyword", "p_false_pos/p_false_neg passed by keyword from the noise model", f"BitStrings.apply passes {kws}", E.where(bs))
    rep.floor("SIB", 5)

    # ------------------------------------------------- SIB: the unflipped sample is returned only when no bit can flip

    def rate_of(t) -> str:
        if t[0] == "idx" and t[2][0] == "const":
            return str(t[2][1])
        if t[0] == "attr":
            return t[2]
        if t[0] == "name":
            return t[1]
        return sym.show(t)

    for f, neg, pos in ((s1, "epsilon_prime", "epsilon"), (s2, "p_false_neg", "p_false_pos")):
        r = S(E, f).ret
        alts = list(branches(r))
        flipped = [a for a in alts if any(x[0] == "call" and x[1][0] == "attr" and x[1][2] == "where" for x in sym.subterms(a[1]))]
        plain = [a for a in alts if a not in flipped and a[1][0] != "raise"]
        if not flipped:
            continue  # reported above
        bad = None
        for conds, _leaf in plain:
            for conj in dnf(sym.mk_and(conds)):
                if any(is_(x, "Q_m is None") is not None and mentions(is_(x, "Q_m is None")["Q_m"], "_meas_errors", "meas_errors") for x in conj):
                    continue
                zeros = set()
                for x in conj:
                    m = is_(x, "Q_r == 0")
                    if m is not None:
                        zeros.add(rate_of(m["Q_r"]))
                if not {neg, pos} <= zeros:
                    bad = " and ".join(sh(x, 70) for x in conj) or "<unconditional>"
        rep.check(bad is None and bool(plain), "SIB", f"{f.short}|unflipped-return-needs-both-rates-zero", f"the unflipped sample is returned only when {neg} == 0 and {pos} == 0 (or no detection errors are configured)",
                  f"{f.short}: the sample is returned without flipping any bit on the path [{bad}] -- that does not imply both {pos} == 0 and {neg} == 0, so a configured detection error is silently ignored", E.where(f))
    rep.floor("SIB", 7)

    # ------------------------------------------------- WEIGHT: Monte-Carlo accumulation weights every run by its multiplicity
    n_w = 0
    for f in P.all_functions():
        if not f.module.name.startswith("pulser_simulation"):
            continue
        for loop in own_nodes(f):
            if not (isinstance(loop, ast.For) and isinstance(loop.iter, ast.Call) and (dotted(loop.iter.func) or "").endswith("_noisy_runs") and isinstance(loop.target, ast.Tuple) and len(loop.target.elts) == 2 and isinstance(loop.target.elts[1], ast.Name)):
                continue
            reps = loop.target.elts[1].id
            body_nodes = [n for st in loop.body for n in ast.walk(st)]
            local_defs: dict[str, list[ast.AST]] = {}
            for n in body_nodes:
                if isinstance(n, ast.Assign) and len(n.targets) == 1 and isinstance(n.targets[0], ast.Name):
                    local_defs.setdefault(n.targets[0].id, []).append(n.value)
                if isinstance(n, ast.AnnAssign) and n.value is not None and isinstance(n.target, ast.Name):
                    local_defs.setdefault(n.target.id, []).append(n.value)

            def alternatives(e: ast.AST, depth: int = 0) -> list[ast.AST]:
                if isinstance(e, ast.Name) and e.id in local_defs and depth < 4:
                    return [a for v in local_defs[e.id] for a in alternatives(v, depth + 1)]
                if isinstance(e, ast.IfExp):
                    return alternatives(e.body, depth + 1) + alternatives(e.orelse, depth + 1)
                return [e]

            totals = []
            for n in body_nodes:
                if not (isinstance(n, ast.AugAssign) and isinstance(n.op, ast.Add)):
                    continue
                if isinstance(n.value, ast.Name) and n.value.id == reps and isinstance(n.target, ast.Name):
                    totals.append(n.target.id)
                    continue
                n_w += 1
                alts = alternatives(n.value)
                miss = [a for a in alts if not any(isinstance(x, ast.Name) and x.id == reps for x in ast.walk(a))]
                rep.check(not miss, "WEIGHT", f"{f.short}|{norm(n.target)}|every-term-weighted-by-{reps}", f"`{norm(n)[:70]}`: every accumulated term carries the multiplicity `{reps}` of the run",
                          f"{f.short}: `{norm(n.target)} += ...` accumulates `{norm(miss[0])[:60] if miss else ''}` without the multiplicity `{reps}` yielded by _noisy_runs -- identical initial configurations are run once and must count `{reps}` times in the average", E.where(f, n))
            for tname in totals:
                n_w += 1
                div = [x for x in own_nodes(f) if isinstance(x, ast.BinOp) and isinstance(x.op, ast.Div) and isinstance(x.right, ast.Name) and x.right.id == tname]
                rep.check(bool(div), "WEIGHT", f"{f.short}|normalised-by-{tname}", f"the accumulated sum is divided by `{tname}` (= sum of `{reps}`)", f"{f.short}: `{tname}` accumulates the multiplicities but the accumulated states are never divided by it", E.where(f, loop))
    rep.floor("WEIGHT", 3)

    # ------------------------------------------------- SUFFIX: basis names that may carry "_with_error" are never tested by equality
    res_base = P.cls("pulser_simulation.simresults.SimulationResults")
    scopes = []
    for c in P.classes.values():
        if c.module.name == "pulser_simulation.simresults" and c is not res_base and res_base in P.mro(c):
            init = c.methods.get("__init__")
            raw = False
            for i in init or []:
                for n in own_nodes(i):
                    if isinstance(n, ast.Call) and norm(n.func) == "super().__init__" and any(isinstance(a, ast.Name) and a.id == "basis_name" for a in n.args):
                        raw = True
            if raw:
                scopes += [m for ms in c.methods.values() for m in ms]
    for cn in ("pulser_simulation.simulation.QutipEmulator", "pulser_simulation.hamiltonian.Hamiltonian", "pulser_simulation.qutip_result.QutipResult"):
        scopes += [m for ms in P.cls(cn).methods.values() for m in ms]
    if not any(m.cls.name == "CoherentResults" for m in scopes):
        raise AnalysisError("anchor: CoherentResults no longer forwards its raw basis_name to SimulationResults.__init__")
    BASES = {"ground-rydberg", "digital", "XY", "all"}
    n_sfx = 0
    for m in scopes:
        for n in own_nodes(m):
            if not (isinstance(n, ast.Compare) and len(n.ops) == 1):
                continue
            l, r = n.left, n.comparators[0]
            def is_bn(e):
                d = dotted(e) or ""
                return d.split(".")[-1] in ("basis_name", "_basis_name")
            def lits(e):
                if isinstance(e, ast.Constant) and isinstance(e.value, str):
                    return [e.value]
                if isinstance(e, (ast.List, ast.Set, ast.Tuple)) and e.elts and all(isinstance(x, ast.Constant) and isinstance(x.value, str) for x in e.elts):
                    return [x.value for x in e.elts]
                return None
            if not ((is_bn(l) and lits(r) is not None) or (is_bn(r) and lits(l) is not None)):
                continue
            n_sfx += 1
            op = n.ops[0]
            exact = isinstance(op, (ast.Eq, ast.NotEq)) or (isinstance(op, (ast.In, ast.NotIn)) and is_bn(l) and not isinstance(r, ast.Constant))
            values = lits(r) if is_bn(l) else lits(l)
            bad = exact and any(v in BASES for v in values or [])
            rep.check(not bad, "SUFFIX", f"{m.short}|{norm(n)}", f"`{norm(n)}` is a substring test", f"{m.short}: `{norm(n)}` tests a basis name for equality, but here the name may carry the '_with_error' suffix (leakage) -- 'ground-rydberg_with_error' would take the other branch; use a substring test or strip the suffix first", E.where(m, n))
    rep.floor("SUFFIX", 4)

    # ------------------------------------------------- SIB: every sampling entry point goes through sample_state
    # (CoherentResults overrides sample_state to apply the detection errors; a base-class method that samples the
    # final result directly bypasses them)
    sfs = E.fn("pulser_simulation.simresults.SimulationResults.sample_final_state")
    r_ = S(E, sfs).ret
    rep.check(is_(r_, "self.sample_state(self._sim_times[-1], N_samples)") is not None, "SIB", "SimulationResults.sample_final_state|delegates-to-sample_state", "sample_final_state = sample_state(last time, N)", f"sample_final_state returns {sh(r_, 100)}: it must go through the overridable sample_state (which applies the detection errors), at the last simulation time", E.where(sfs))
    # the two ways of changing the configuration keep a custom initial state when the dimension is unchanged
    for nm_ in ("set_config", "add_config"):
        g_ = E.fn(f"pulser_simulation.simulation.QutipEmulator.{nm_}")
        cs_ = [l for l in S(E, g_, inline=False).log if l.fn == g_.short and l.kind == "call" and l.target == ("attr", ("name", "self"), "set_initial_state")]
        keep = [l for l in cs_ if l.value[2] and l.value[2][0] == ("attr", ("name", "self"), "_initial_state")]
        reset = [l for l in cs_ if l.value[2] and l.value[2][0] == ("const", "all-ground")]
        same_dim = lambda l: any(is_(x, "self.dim == Q_f") is not None for x in sym.conj_of(l.cond))  # noqa: E731
        diff_dim = lambda l: any(is_(x, "self.dim != Q_f") is not None for x in sym.conj_of(l.cond))  # noqa: E731
        ok_ = bool(keep) and all(same_dim(l) for l in keep) and bool(reset) and all(diff_dim(l) for l in reset)
        rep.check(ok_, "SIB", f"QutipEmulator.{nm_}|initial-state-kept-iff-dimension-unchanged", "the current initial state is re-applied when the dimension is unchanged; 'all-ground' only when it changed", f"QutipEmulator.{nm_} no longer keeps the user's initial state when the new configuration leaves the dimension unchanged (set_initial_state('all-ground') must run only under self.dim != former_dim)", E.where(g_))
    rep.floor("SIB", 10)

    # ------------------------------------------------- PASS: the solver is only run with validated options
    # _validate_options derives max_step / nsteps from the samples; without max_step the adaptive solver steps over a
    # pulse that follows a long idle period.  Every way into _run_solver / _noisy_runs hands over options that passed
    # _validate_options in the same function (or is one of QutipEmulator's own methods called with such options).
    emu = "pulser_simulation.simulation.QutipEmulator"
    rs, nr = E.fn(emu + "._run_solver"), E.fn(emu + "._noisy_runs")
    n_solv = 0
    for tgt in (rs, nr):
        for caller, _ev in E.callers_of(tgt):
            Sc_ = S(E, caller, inline=False)
            own_ = [l for l in Sc_.log if l.fn == caller.short and l.kind == "call" and l.target is not None and l.target[0] == "attr"]
            for l in [x for x in own_ if x.target[2] == tgt.name]:
                n_solv += 1
                opts = [v for k, v in l.value[3] if k == "**"]
                validated = [v for x in own_[: own_.index(l)] if x.target[2] == "_validate_options" for v in x.value[2][:1]]
                passthrough = caller.cls is not None and caller.cls.qualname == emu and caller.name.startswith("_") and opts == [("name", caller.node.args.kwarg.arg)] if caller.node.args.kwarg is not None else False
                ok_ = bool(opts) and (opts[0] in validated or bool(passthrough))
                rep.check(ok_, "PASS", f"{caller.short}|{tgt.name}|options-validated", "the solver options handed over passed _validate_options (max_step from the samples)", f"{caller.short} calls {tgt.name}({'**' + sh(opts[0], 30) if opts else 'no options'}) without options that passed QutipEmulator._validate_options: no max_step is set, so the adaptive solver can step over a pulse that follows an idle period (the V2 backend then disagrees with QutipEmulator.run on the same sequence)", E.where(caller, l.node))
    rep.floor("PASS", 3)

    # ------------------------------------------------- UNIT: one idiom for the ns -> us conversion of the total duration
    # The emulator compares / merges times computed at different sites (evaluation times handed over by the backend
    # config, the end of the sequence, the relative time of a result).  x * 1e-3 and x / 1000 differ in the last bit
    # for about one duration in seven, so a time that is exactly the end of the sequence on one side is "beyond the
    # end" (or not 1.0) on the other.  All conversions of a total duration must be written the same way.
    from .symutil import S as _S2

    idioms: dict = {}
    for f in P.all_functions():
        if f.kind == "overload" or f.module.name not in ("pulser_simulation.simulation", "pulser_simulation.qutip_config", "pulser_simulation.qutip_backend"):
            continue
        if "duration" not in norm(f.node):
            continue
        Sf = _S2(E, f, inline=False)
        seen_terms = set()
        for l in Sf.log:
            for t in (l.target, l.value, l.cond):
                for x in sym.subterms(t) if t is not None else ():
                    if x[0] != "mul" or (x, id(l.node)) in seen_terms:
                        continue
                    seen_terms.add((x, id(l.node)))
                    facs = x[1:]
                    dur = [y for y in facs if mentions(y, "_tot_duration", "total_duration_ns") and y[0] != "inv"]
                    inv_dur = [y for y in facs if y[0] == "inv" and mentions(y[1], "_tot_duration", "total_duration_ns")]
                    c = facs[0][1] if sym.is_num(facs[0]) else None
                    inv1000 = any(y == ("inv", ("const", 1000)) or y == ("inv", ("const", 1000.0)) for y in facs)
                    kind = None
                    if dur and c is not None and abs(c - 1e-3) < 1e-18:
                        kind = "duration * 1e-3"
                    elif dur and inv1000:
                        kind = "duration / 1000"
                    elif inv_dur and ("inv", ("const", 0.001)) in facs:
                        kind = "duration * 1e-3"
                    elif inv_dur and c is not None and abs(c - 1e3) < 1e-9:
                        kind = "t / duration * 1e3  (= t / (duration / 1000) up to rounding)"
                    elif inv_dur and mentions(inv_dur[0], "_tot_duration", "total_duration_ns") and any(sym.is_num(z) and abs(z[1] - 1e-3) < 1e-18 for z in (inv_dur[0][1][1:] if inv_dur[0][1][0] == "mul" else ())):
                        kind = "duration * 1e-3"
                    elif inv_dur and inv_dur[0][1][0] == "mul" and ("inv", ("const", 1000)) in inv_dur[0][1][1:]:
                        kind = "duration / 1000"
                    if kind:
                        idioms.setdefault(kind, []).append(E.where(f, l.node))
    n_sites = sum(len(v) for v in idioms.values())
    major = max(idioms, key=lambda k: len(idioms[k])) if idioms else None
    # the reference is the sampling grid itself (Hamiltonian: np.arange(n) / 1000): "Full" evaluation times are grid
    # points merged with the converted total duration, so every conversion must be bit-identical with the grid's
    hinit = E.fn("pulser_simulation.hamiltonian.Hamiltonian.__init__")
    grid_kind = None
    for l in _S2(E, hinit, inline=False).log:
        for t in (l.value, l.target):
            for x in sym.subterms(t) if t is not None else ():
                if x[0] == "mul" and any(y[0] == "call" and y[1][0] == "attr" and y[1][2] == "arange" for y in x[1:]):
                    if ("inv", ("const", 1000)) in x[1:] or ("inv", ("const", 1000.0)) in x[1:]:
                        grid_kind = "duration / 1000"
                    elif any(sym.is_num(y) and abs(y[1] - 1e-3) < 1e-18 for y in x[1:]):
                        grid_kind = "duration * 1e-3"
    if grid_kind is None:
        raise AnalysisError("anchor: the sampling grid (np.arange(...) / 1000) of Hamiltonian.__init__ was not found")
    rep.ok("UNIT", f"ns-to-us|sampling-grid|{grid_kind}", f"the sampling grid converts ns to us as `{grid_kind}`: the reference for every other site", E.where(hinit))
    major = grid_kind
    idioms.setdefault(major, [])
    for kind, sites in sorted(idioms.items()):
        for wsite in sorted(set(sites)):
            if kind.startswith("t / duration * 1e3"):
                # a relative time t / (duration in us): the normal form cannot tell t / (d / 1000) from t / d * 1e3
                # (both read t * 1000 / d); relative times are matched with a half-step tolerance, so this is not decided
                rep.excepted("UNIT", f"ns-to-us|relative-time|{wsite.split(' ')[-1].strip('()')}", "relative time t / (total duration in us): the two spellings are one term in the normal form; matched with a tolerance downstream", wsite)
                continue
            rep.check(kind == major, "UNIT", f"ns-to-us|{kind.split('  ')[0]}|{wsite.split(' ')[-1].strip('()')}", f"total duration converted as `{kind}`, like the sampling grid",
                      f"the total duration is converted to microseconds as `{kind}` here but the sampling grid (and {len(idioms[major])} other site(s)) uses `{major}`: the two differ in the last bit for many durations, so a time equal to the end of the sequence at one site is beyond it (or not exactly 1.0 relative) at the other -- e.g. an observable evaluated at relative time 1.0 is refused", wsite)
    if n_sites < 3:
        rep.error(f"only {n_sites} ns->us conversions of the total duration found in the emulator (expected >= 3)")
    return {"string_vs_array_comparisons": n_cmp, "accumulations": n_w, "basis_name_tests": n_sfx, "unit_conversions": {k: len(v) for k, v in idioms.items()}}
