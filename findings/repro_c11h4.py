"""QutipBackendV2 stores results at times that differ from the configured ones.

The relative evaluation times of the config are turned into µs for the
QutipEmulator (t * T / 1000) and back (t_us / (T / 1000)); the round trip
does not always return the same float, so a result configured at 0.9 is stored
at 0.8999999999999999 and `Results.get_result(obs, 0.9)` raises, although the
legacy emulator returns the state at that very time.
"""
import sys

import numpy as np

from pulser import Pulse, Register, Sequence
from pulser.backend import StateResult
from pulser.devices import MockDevice
from pulser_simulation import QutipBackendV2, QutipConfig, QutipEmulator

reg = Register.from_coordinates([(0, 0)], prefix="q")
eval_times = [0.1, 0.3, 0.7, 0.9, 1.0]
failures = []
n_lookups = 0
for duration in (10, 17, 52, 101, 333):
    seq = Sequence(reg, MockDevice)
    seq.declare_channel("ryd", "rydberg_global")
    seq.add(Pulse.ConstantPulse(duration, 2.0, 0.0, 0.0), "ryd")
    config = QutipConfig(
        observables=[StateResult()], default_evaluation_times=eval_times
    )
    res = QutipBackendV2(seq, config=config).run()
    legacy = QutipEmulator.from_sequence(
        seq, evaluation_times=np.array(eval_times) * duration / 1000
    ).run()
    for t in eval_times:
        n_lookups += 1
        legacy_state = legacy.get_state(
            t * duration / 1000, t_tol=1e-9, ignore_global_phase=False
        )
        try:
            v2_state = res.get_result("state", t).to_qobj()
        except ValueError as e:
            failures.append((duration, t, res.get_result_times("state")))
            continue
        if (v2_state - legacy_state).norm() > 1e-9:
            failures.append((duration, t, "different states"))

for duration, t, info in failures[:3]:
    print(f"duration {duration} ns: no 'state' result at configured time {t}"
          f" -- stored times: {[float(x) for x in info]}")
print(f"{len(failures)} of {n_lookups} configured evaluation times not available")
print("PASS" if not failures else "FAIL")
sys.exit(0 if not failures else 1)
