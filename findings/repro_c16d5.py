"""C16: a Kaiser waveform built from a maximum value never exceeds it while
coming as close to it as whole nanoseconds allow -- for all real parameter
values.  KaiserWaveform.from_max_val only tests the short durations
exhaustively when its first guess is below 11 ns.  For a narrow window
(beta >~ 190) and an area that already fits in ONE sample
(1000 * area < max_val) the guess is >= 11, every shorter duration stays below
max_val, and the downward search walks to duration 0, where
np.max(np.kaiser(0, beta)) raises an unrelated ValueError."""
import sys
import warnings

import numpy as np

warnings.simplefilter("ignore")

from pulser.waveforms import KaiserWaveform

problems = []
cases = [
    (10.0, 0.0095, 250.0),
    (10.0, 0.00999, 190.0),
    (-10.0, -0.0095, 250.0),
    (35.83752427637201, 0.03538052581537689, 200.0),
    # controls that work on the unchanged tree
    (10.0, 0.0095, 14.0),
    (10.0, 0.0105, 250.0),
    (10.0, 1.0, 250.0),
]
for max_val, area, beta in cases:
    label = f"KaiserWaveform.from_max_val({max_val}, {area}, {beta})"
    try:
        wf = KaiserWaveform.from_max_val(max_val, area, beta)
    except Exception as e:
        problems.append(f"{label} raised {type(e).__name__}: {e}")
        continue
    peak = float(np.max(np.abs(wf.samples.as_array())))
    if not np.isclose(wf.integral, area):
        problems.append(f"{label}: integral {wf.integral}")
    if peak > abs(max_val) * (1 + 1e-12):
        problems.append(f"{label}: peak {peak} exceeds the maximum")

if problems:
    print("FAIL")
    for p in problems:
        print("  ", p)
    sys.exit(1)
print("PASS")
