"""C04: a phase shift recorded with `phi` passed by keyword could not be serialized.

`seq.phase_shift(phi=1.0)` (no targets -- a legal no-op, recorded like any other call) stores
_Call('phase_shift', (), {'phi': 1.0}); serialize_abstract_sequence read `call.args[0]` and raised
IndexError, while `seq.phase_shift(1.0)` serializes.  Found by rule ARGS (pstatic/callargs.py).
Exits 1 when the defect is present.
"""
import json
import sys

from pulser import Register, Sequence
from pulser.devices import DigitalAnalogDevice

reg = Register.square(2, 5, prefix="q")
seq = Sequence(reg, DigitalAnalogDevice)
seq.declare_channel("ch", "raman_local", initial_target="q0")
seq.phase_shift(phi=1.0)
try:
    ops = json.loads(seq.to_abstract_repr())["operations"]
except IndexError as e:
    print("DEFECT: to_abstract_repr raised IndexError:", e)
    sys.exit(1)
assert ops[-1] == {"op": "phase_shift", "phi": 1.0, "targets": [], "basis": "digital"}, ops[-1]
print("ok:", ops[-1])
