#!/usr/bin/env python3
"""Writes /verif/tables/selftest_variants.json (built-in mutants and benign rewrites for the thorough tier)."""
import json
import os

BC = "pulser-core/pulser/channels/base_channel.py"
DMM = "pulser-core/pulser/channels/dmm.py"
SEQ = "pulser-core/pulser/sequence/sequence.py"
SCH = "pulser-core/pulser/sequence/_schedule.py"
DEC = "pulser-core/pulser/sequence/_decorators.py"
DEV = "pulser-core/pulser/devices/_device_datacls.py"
SER = "pulser-core/pulser/json/abstract_repr/serializer.py"
DES = "pulser-core/pulser/json/abstract_repr/deserializer.py"
SIG = "pulser-core/pulser/json/abstract_repr/signatures.py"
SCHEMA = "pulser-core/pulser/json/abstract_repr/schemas/sequence-schema.json"
SWD = "pulser-core/pulser/sequence/helpers/_switch_device.py"
COO = "pulser-core/pulser/register/_coordinates.py"
TRP = "pulser-core/pulser/register/traps.py"
WM = "pulser-core/pulser/register/weight_maps.py"
WF = "pulser-core/pulser/waveforms.py"
PUL = "pulser-core/pulser/pulse.py"
NM = "pulser-core/pulser/noise_model.py"
SMP = "pulser-core/pulser/sampler/samples.py"
HAM = "pulser-simulation/pulser_simulation/hamiltonian.py"
QR = "pulser-simulation/pulser_simulation/qutip_result.py"
QS = "pulser-simulation/pulser_simulation/qutip_state.py"
CFG = "pulser-core/pulser/backend/config.py"
OBS = "pulser-core/pulser/backend/observable.py"
RES = "pulser-core/pulser/backend/results.py"
BR = "pulser-core/pulser/sequence/_basis_ref.py"
EOM = "pulser-core/pulser/channels/eom.py"
PO = "pulser-core/pulser/parametrized/paramobj.py"
VAR = "pulser-core/pulser/parametrized/variable.py"
QB = "pulser-simulation/pulser_simulation/qutip_backend.py"
STATE = "pulser-core/pulser/backend/state.py"
SC = "pulser-simulation/pulser_simulation/simconfig.py"


def m(name, file, old, new, expect="", count=1):
    return {"name": name, "file": file, "old": old, "new": new, "expect": expect, "count": count}


MUT = {
    "C01": [
        m("amp-ge", BC, "np.any(amp_samples_np > self.max_amp)", "np.any(amp_samples_np >= self.max_amp)", "amp>max_amp"),
        m("det-no-abs", BC, "np.abs(pulse.detuning.samples.as_array(detach=True)),", "pulse.detuning.samples.as_array(detach=True),", "|det|>max_abs_detuning"),
        m("min-duration-le", BC, "if duration < self.min_duration:", "if duration <= self.min_duration:", "d<min_duration"),
        m("max-duration-noneguard", BC, "if self.max_duration is not None and duration > self.max_duration:", "if duration > self.max_duration:", "d>max_duration"),
        m("dmm-bottom-gt", DMM, "            < self.bottom_detuning\n", "            <= self.bottom_detuning\n", "max_w*min_det<bottom"),
        m("seq-duration-ge", SCH, "t > self.max_duration:", "t >= self.max_duration:", "t>max_sequence_duration"),
        m("unvalidated-pulse-scheduled", SEQ, "        pulse = self._validate_and_adjust_pulse(pulse, channel, phase_ref)\n\n        phase_barriers = [\n            self._basis_ref[basis][q].phase.last_time for q in last.targets\n        ]\n\n        self._schedule.add_pulse(", "        self._validate_and_adjust_pulse(pulse, channel, phase_ref)\n\n        phase_barriers = [\n            self._basis_ref[basis][q].phase.last_time for q in last.targets\n        ]\n\n        self._schedule.add_pulse(", "scheduled-pulse-is-validation-result"),
        m("nonblocking-duration-check", SCH, "            phase_drift_params,\n            True,\n        )", "            phase_drift_params,\n            False,\n        )", "append-dominated-by-duration-check"),
        m("finite-dropped", BC, "            np.all(np.isfinite(amp_samples_np))\n            and np.all(np.isfinite(det_samples_np))", "            np.all(np.isfinite(amp_samples_np))", "finite-detuning"),
        m("avg-amp-le", BC, "if 0 < avg_amp < self.min_avg_amp:", "if 0 < avg_amp <= self.min_avg_amp:", "avg_amp<min_avg_amp"),
    ],
    "C02": [
        m("slot-pop", SCH, "        self[channel].slots.append(time_slot)\n", "        self[channel].slots.append(time_slot)\n        self[channel].slots.sort()\n", "slots|call:sort"),
        m("ti-from-last-ti", SCH, "        last = self[channel][-1]\n        ti = last.tf\n        tf = ti + self[channel].channel_obj.validate_duration(duration)", "        last = self[channel][-1]\n        ti = last.ti\n        tf = ti + self[channel].channel_obj.validate_duration(duration)", "ti=previous-tf"),
        m("delay-unvalidated", SCH, "tf = ti + self[channel].channel_obj.validate_duration(duration)", "tf = ti + duration", "tf=ti+validated-duration"),
        m("duration-min", SCH, "return max(self[id].get_duration(include_fall_time) for id in channels)", "return min(self[id].get_duration(include_fall_time) for id in channels)", "max-over-channels"),
        m("adjust-no-min", SCH, "                max(duration, self.channel_obj.min_duration)\n", "                duration\n", "validate(max(d,min))"),
        m("inserted-delay-wrong", SCH, "delay_duration = time_slot.ti - last.tf", "delay_duration = time_slot.ti - last.ti", "delay=slot.ti-last.tf"),
    ],
    "C03": [
        m("estimate-skips-phase-ref", SEQ, "        pulse = self._validate_and_adjust_pulse(pulse, channel, phase_ref)\n\n        phase_barriers = [\n            self._basis_ref[basis][q].phase.last_time for q in last.targets\n        ]\n        next_time_slot", "        pulse = self._validate_and_adjust_pulse(pulse, channel)\n\n        phase_barriers = [\n            self._basis_ref[basis][q].phase.last_time for q in last.targets\n        ]\n        next_time_slot", "estimate"),
        m("conflict-without-fall-time", SCH, "                    current_max_t = op.tf + op.type.fall_time(\n                        this_chobj, in_eom_mode=in_eom_mode\n                    )", "                    current_max_t = op.tf", "op.tf+ramp-down"),
        m("wait-for-all-typo", SCH, 'or protocol == "wait-for-all"', 'and protocol == "wait-for-all"', "conflict=overlap-or-wait-for-all"),
        m("scan-even-no-delay", SCH, '        if protocol != "no-delay":\n            current_max_t = self._find_add_delay(', '        if protocol != "min-delay":\n            current_max_t = self._find_add_delay(', "conflict-scan-iff-not-no-delay"),
        m("align-plain-end-lost", SEQ, "            delta = tf - self.get_duration(id)\n", "            delta = tf - self.get_duration(id, include_fall_time=at_rest)\n", "delta-subtracts-plain-end"),
    ],
    "C04": [
        m("serializer-key-renamed", SER, '"time": data["duration"],', '"duration": data["duration"],', "op|delay"),
        m("deserializer-default-flipped", DES, 'at_rest=op.get("at_rest", True),', 'at_rest=op.get("at_rest", False),', "default|at_rest"),
        m("tuple-reordered", SER, '("pulse", "channel", "protocol")', '("channel", "pulse", "protocol")', "get_all_args|add"),
        m("unary-op-dropped", SIG, '    "tanh": np.tanh,\n', "", "tanh"),
        m("schema-required-dropped", SCHEMA, '"required": [\n        "op",\n        "channel",\n        "time"\n      ]', '"required": [\n        "op",\n        "channel"\n      ]', "op|delay"),
        m("stored-call-unserialised", SER, '        elif call.name == "add_dmm_detuning":\n            data = get_all_args(("waveform", "dmm_name", "protocol"), call)\n            operations.append({"op": "add_dmm_detuning", **data})\n', "", "add_dmm_detuning"),
    ],
    "C09": [
        m("record-before-call", DEC, "        func(self, *args, **kwargs)\n        storage.append(_Call(func.__name__, args, kwargs))", "        storage.append(_Call(func.__name__, args, kwargs))\n        func(self, *args, **kwargs)", "RECORD"),
        m("restore-dropped", DEC, "            self._building = was_building\n            raise", "            raise", "verify_parametrization.wrapper"),
        m("delay-validates-late", SEQ, "        if duration:\n            # Validates the duration before anything is added to the channel\n            duration = self._schedule[channel].channel_obj.validate_duration(\n                cast(int, duration)\n            )\n        if at_rest:\n            self._schedule.wait_for_fall(channel)\n", "        if at_rest:\n            self._schedule.wait_for_fall(channel)\n        if duration:\n            duration = self._schedule[channel].channel_obj.validate_duration(\n                cast(int, duration)\n            )\n", "Sequence._delay"),
        m("readonly-caches-on-self", SEQ, "        if channel is not None:\n            self._validate_channel(channel)\n\n        return self._schedule.get_duration(channel, include_fall_time)", "        if channel is not None:\n            self._validate_channel(channel)\n        self._empty_sequence = False\n        return self._schedule.get_duration(channel, include_fall_time)", "RO"),
        m("xy-flag-before-check", SEQ, "        mag_vector = (bx, by, bz)\n        if np.linalg.norm(mag_vector) == 0.0:", "        self._in_xy = True\n        mag_vector = (bx, by, bz)\n        if np.linalg.norm(mag_vector) == 0.0:", "Sequence.set_magnetic_field"),
        m("serializer-mutates-call", SER, "                dict(call.kwargs), \"align\", \"at_rest\"", "                call.kwargs, \"align\", \"at_rest\"", "RO"),
    ],
    "C12": [
        m("atoms-ge", DEV, "if len(coords) > max_atom_num:", "if len(coords) >= max_atom_num:", "n_atoms>max_atom_num"),
        m("radius-ge", DEV, "            > self.max_radial_distance\n        )\n        if np.any(too_far):", "            >= self.max_radial_distance\n        )\n        if np.any(too_far):", "norm>max_radial_distance"),
        m("traps-min-le", DEV, "if layout.number_of_traps < self.min_layout_traps:", "if layout.number_of_traps <= self.min_layout_traps:", "traps<min_layout_traps"),
        m("max-traps-unguarded", DEV, "            self.max_layout_traps is not None\n            and layout.number_of_traps > self.max_layout_traps", "            layout.number_of_traps > self.max_layout_traps", "traps>max_layout_traps"),
        m("distance-and", DEV, "return cast(np.ndarray, np.logical_or(cond1, cond2))", "return cast(np.ndarray, np.logical_and(cond1, cond2))", "either-condition-rejects"),
        m("spec-guard-wrong-attr", DEV, "                if ch.max_amp is not None:\n                    max_amp = f\"{float(ch.max_amp):.4g} rad/µs\"", "                if ch.max_abs_detuning is not None:\n                    max_amp = f\"{float(ch.max_amp):.4g} rad/µs\"", "_channel_lines|max_amp"),
    ],
    "C13": [
        m("measured-guard-dropped", SEQ, "    @seq_decorators.store\n    @seq_decorators.block_if_measured\n    def align(", "    @seq_decorators.store\n    def align(", "Sequence.align|measured-guard"),
        m("eom-block-flag-dropped", SEQ, "        self._validate_channel(\n            channel,\n            block_eom_mode=True,\n            block_if_slm=channel.startswith(\"dmm_\"),\n        )", "        self._validate_channel(\n            channel,\n            block_if_slm=channel.startswith(\"dmm_\"),\n        )", "Sequence.add|not-in-eom"),
        m("eom-pulse-guard-inverted", SEQ, "        if not self.is_in_eom_mode(channel):\n            raise RuntimeError(f\"Channel '{channel}' must be in EOM mode.\")", "        if self.is_in_eom_mode(channel):\n            raise RuntimeError(f\"Channel '{channel}' must be in EOM mode.\")", "Sequence.add_eom_pulse|in-eom"),
        m("name-in-use-dropped", SEQ, "        if name in self._schedule:\n            raise ValueError(\"The given name is already in use.\")\n", "", "declare_channel|name-in-use"),
        m("screen-dropped", SEQ, "    @seq_decorators.screen\n    def current_phase_ref(", "    def current_phase_ref(", "current_phase_ref|not-parametrized"),
    ],
    "C17": [
        m("optional-without-default", BC, '    "propagation_dir",\n)', '    "propagation_dir",\n    "mod_bandwidth",\n)', "Rydberg"),
        m("class-attribute-again", STATE, "        state._n_qudits = n_qudits", "        cls._n_qudits = n_qudits", "class-attribute-assignment"),
        m("noise-param-unstored", NM, "            temperature=temperature,\n            laser_waist=laser_waist,", "            temperature=temperature,\n            laser_waist=amp_sigma,", "param_vals|laser_waist"),
        m("noise-type-overlap", NM, '    "doppler": ("temperature",),', '    "doppler": ("temperature", "laser_waist"),', "_NOISE_TYPE_PARAMS-disjoint"),
        m("temperature-unpaired", SC, '            kwargs["temperature"] *= 1e6  # Converts back to µK\n', "            pass\n", "temperature-unit-conversion"),
    ],
    "C18": [
        m("strict-drops-clock", SWD, '            "clock_period",\n', "", "timing-field|clock_period"),
        m("strict-drops-min-duration", SWD, '        params_to_check.append("min_duration")\n', "", "timing-field|min_duration"),
    ],
    "C19": [
        m("hash-unsorted-weights", WM, "hash_.update(self.sorted_weights.tobytes())", "hash_.update(np.array(self.weights).tobytes())", "_hash_object"),
        m("sort-on-raw", COO, "        return self._rounded_coords[sorting]", "        return self._rounded_coords", "canonical"),
        m("unique-on-raw", TRP, "rounded_coords_arr = np.round(coords_arr, decimals=COORD_PRECISION)", "rounded_coords_arr = coords_arr", "uniqueness-on-rounded-coordinates"),
        m("round-literal", TRP, "            np.array(coordinates), decimals=COORD_PRECISION\n", "            np.array(coordinates), decimals=5\n", "round-uses-COORD_PRECISION"),
    ],
    "C07": [
        m("format-no-mod", BR, "return phi % (2 * np.pi)", "return phi", "_format|mod-2pi"),
        m("increment-overwrites", BR, "self.phase[self.last_used] = self.phase.last_phase + phi", "self.phase[self.last_used] = phi", "additive-at-last-used"),
        m("phase-ref-dropped", SEQ, "new_phase = pulse.phase + (phase_ref if phase_ref else 0)", "new_phase = pulse.phase", "phase=pulse.phase+phase_ref"),
    ],
    "C08": [
        m("kwargs-not-built", SEQ, "                key: val.build() if isinstance(val, Parametrized) else val\n                for key, val in call.kwargs.items()\n            }\n            getattr(seq, call.name)(*args_, **kwargs_)", "                key: val\n                for key, val in call.kwargs.items()\n            }\n            getattr(seq, call.name)(*args_, **kwargs_)", "kwargs-built"),
        m("count-not-bumped", VAR, '        object.__setattr__(self, "value", val)\n        object.__setattr__(self, "_count", self._count + 1)', '        object.__setattr__(self, "value", val)', "value-write-bumps-_count"),
        m("replay-on-template", SEQ, "            getattr(seq, call.name)(*args_, **kwargs_)", "            getattr(self, call.name)(*args_, **kwargs_)", "Sequence.build"),
    ],
    "C10": [
        m("jump-time-dropped", SCH, "                        max(\n                            ch_obj.phase_jump_time,\n                            # In EOM mode, we must wait at least 2*rise_time\n                            2 * ch_obj.rise_time * in_eom_mode,\n                        )", "                        max(\n                            0,\n                            2 * ch_obj.rise_time * in_eom_mode,\n                        )", "phase_jump_buffer|phase_jump_time"),
        m("custom-zero-ignored", BC, "            if self.custom_phase_jump_time is None\n", "            if not self.custom_phase_jump_time\n", "custom-else-2*rise_time"),
        m("retarget-before-fall", SCH, "            self.wait_for_fall(channel)\n\n            last = self[channel][-1]\n            if last.targets == qubits_set:\n                return", "            last = self[channel][-1]\n            if last.targets == qubits_set:\n                return\n            self.wait_for_fall(channel)\n", "add_target"),
    ],
    "C15": [
        m("eom-pulse-uses-off-detuning", SEQ, "            eom_settings.detuning_on,\n            phase,", "            eom_settings.detuning_off,\n            phase,", "detuning=current-block.detuning_on"),
        m("settings-swapped", SCH, "            rabi_freq=amp_on,\n            detuning_on=detuning_on,\n            detuning_off=detuning_off,", "            rabi_freq=amp_on,\n            detuning_on=detuning_off,\n            detuning_off=detuning_on,", "settings-slots"),
        m("beams-other-index", EOM, "return best_det_off, self._switching_beams_combos[closest_option]", "return best_det_off, self._switching_beams_combos[0]", "same-index-for-beams"),
    ],
    "C16": [
        m("ramp-scale-one-end", WF, "return RampWaveform(self._duration, self._start * k, self._stop * k)", "return RampWaveform(self._duration, self._start * k, self._stop)", "RampWaveform.__mul__"),
        m("constant-change-duration", WF, "return ConstantWaveform(new_duration, self._value)", "return ConstantWaveform(self._duration, self._value)", "ConstantWaveform.change_duration"),
        m("ramp-div0-again", WF, "/ max(self._duration - 1, 1)", "/ (self._duration - 1)", "DIV0"),
    ],
    "C05": [
        m("detuning-not-halved", HAM, '                    -0.5 * samples["det"],\n', '                    -1.0 * samples["det"],\n', ""),
        m("vdw-not-halved", HAM, "U = 0.5 * self._device.interaction_coeff / dist**6", "U = self._device.interaction_coeff / dist**6", "half-C6-over-R6"),
        m("op-ids-swapped", HAM, 'op_ids = ["sigma_hg", "sigma_gg"]', 'op_ids = ["sigma_gh", "sigma_gg"]', "op_ids|digital"),
    ],
    "C06": [
        m("det-range-differs", SMP, "                d[_GLOBAL][basis][_DET][start_t:] += cs.det[start_t:]", "                d[_GLOBAL][basis][_DET][start_t:] += cs.det[:start_t]", "group"),
        m("weight-on-amp", SMP, "                        d[_LOCAL][basis][t][_AMP][times] += cs.amp[times]", "                        d[_LOCAL][basis][t][_AMP][times] += cs.amp[times] * det_weight_map[t]", "group"),
        m("slots0-unguarded-again", SMP, "if start_t == 0 or not cs.slots:", "if start_t == 0:", "CONTRA"),
    ],
    "C11": [
        m("bare-compare-again", CFG, "            isinstance(self.default_evaluation_times, str)\n            and self.default_evaluation_times == \"Full\"", "            self.default_evaluation_times == \"Full\"", "TYPECMP"),
        m("one-state-wrong", QR, '                "digital": "h",', '                "digital": "g",', "one_state_dict"),
        m("rates-swapped", QS, "flip_probs = np.where(bitstr_arr == 1, p_false_neg, p_false_pos)", "flip_probs = np.where(bitstr_arr == 1, p_false_pos, p_false_neg)", "flip=where"),
    ],
    "C20": [
        m("literal-dim-again", QB, "qutip.Qobj(np.zeros((dim, dim)))", "qutip.Qobj(np.zeros((2, 2)))", "qudit-dimension-not-hard-coded"),
        m("repeat-time-accepted", RES, "        if time in _times:\n            raise RuntimeError(\n                f\"A value is already stored for observable '{tag}'\"\n                f\" at time {time}.\"\n            )\n", "", "one-value-per-time"),
    ],
}

BENIGN = {
    "C01": [
        m("mirror-relation", BC, "if duration < self.min_duration:", "if self.min_duration > duration:"),
        m("not-le", BC, "np.any(amp_samples_np > self.max_amp)", "np.any(~(amp_samples_np <= self.max_amp))" if False else "np.any(self.max_amp < amp_samples_np)"),
        m("temporary", SCH, "        if self.max_duration is not None and t > self.max_duration:", "        limit = self.max_duration\n        if limit is not None and t > limit:"),
        m("message-reworded", BC, '"The pulse\'s amplitude goes over the maximum "', '"The amplitude of the pulse exceeds the maximum "'),
        m("local-renamed", SEQ, "        _duration = channel_obj.validate_duration(pulse.duration)\n        new_phase = pulse.phase + (phase_ref if phase_ref else 0)\n        if _duration != pulse.duration:\n            try:\n                new_amp = pulse.amplitude.change_duration(_duration)\n                new_det = pulse.detuning.change_duration(_duration)", "        valid_dur = channel_obj.validate_duration(pulse.duration)\n        new_phase = pulse.phase + (phase_ref if phase_ref else 0)\n        if valid_dur != pulse.duration:\n            try:\n                new_amp = pulse.amplitude.change_duration(valid_dur)\n                new_det = pulse.detuning.change_duration(valid_dur)"),
    ],
    "C02": [
        m("local-renamed", SCH, "        last = self[channel][-1]\n        ti = last.tf\n        tf = ti + self[channel].channel_obj.validate_duration(duration)\n        self._check_duration(tf)", "        prev = self[channel][-1]\n        last = prev\n        ti = prev.tf\n        tf = ti + self[channel].channel_obj.validate_duration(duration)\n        self._check_duration(tf)"),
        m("gt-zero-instead-of-ne", SCH, "            if delta != 0:\n                delta = self[channel].adjust_duration(delta)", "            if delta > 0:\n                delta = self[channel].adjust_duration(delta)"),
    ],
    "C03": [
        m("align-via-dict", SEQ, "        tf = max(\n            self.get_duration(id, include_fall_time=at_rest) for id in channels\n        )", "        ends = {\n            id: self.get_duration(id, include_fall_time=at_rest)\n            for id in channels\n        }\n        tf = max(ends.values())"),
    ],
    "C04": [
        m("message-reworded", SER, 'raise AbstractReprError(f"Unknown call \'{call.name}\'.")\n\n    abstr_seq_str', 'raise AbstractReprError(f"Unknown call \'{call.name}\'.")\n\n    # dump\n    abstr_seq_str'),
    ],
    "C09": [
        m("validation-added-before-write", SEQ, "        if name in self._schedule:\n            raise ValueError(\"The given name is already in use.\")\n", "        if name in self._schedule:\n            raise ValueError(\"The given name is already in use.\")\n        if not isinstance(name, str):\n            raise TypeError(\"The channel name must be a string.\")\n"),
        m("message-reworded", SCH, '"The sequence\'s duration exceeded the maximum duration allowed"', '"The duration of the sequence exceeds the maximum allowed"'),
        m("restore-renamed-local", DEC, "        was_building = self._building\n        try:", "        was_building = self._building\n        # remember the mode\n        try:"),
    ],
    "C12": [
        m("mirror-relation", DEV, "if layout.number_of_traps < self.min_layout_traps:", "if self.min_layout_traps > layout.number_of_traps:"),
        m("temporary", DEV, "        if register.dimensionality > self.dimensions:", "        dims_ok = self.dimensions\n        if register.dimensionality > dims_ok:"),
    ],
    "C13": [
        m("guard-reordered-decorators-unchanged", SEQ, "        if name.startswith(\"dmm_\"):\n            raise ValueError(\n                \"Name starting by 'dmm_' are reserved for DMM channels.\"\n            )\n        if name in self._schedule:\n            raise ValueError(\"The given name is already in use.\")\n", "        if name in self._schedule:\n            raise ValueError(\"The given name is already in use.\")\n        if name.startswith(\"dmm_\"):\n            raise ValueError(\n                \"Name starting by 'dmm_' are reserved for DMM channels.\"\n            )\n"),
    ],
    "C17": [
        m("docstring-edit", NM, "__all__ = [\"NoiseModel\"]", "__all__ = [\"NoiseModel\"]  # public API"),
    ],
    "C19": [
        m("sorting-inlined", WM, "        sorting = self._calc_sorting_order()\n        return cast(np.ndarray, np.array(self.weights)[sorting])", "        return cast(\n            np.ndarray, np.array(self.weights)[self._calc_sorting_order()]\n        )"),
    ],
    "C16": [
        m("mul-operands-swapped", WF, "return RampWaveform(self._duration, self._start * k, self._stop * k)", "return RampWaveform(self._duration, k * self._start, k * self._stop)"),
    ],
    "C05": [
        m("half-written-as-division", HAM, "U = 0.5 * self._device.interaction_coeff / dist**6", "U = self._device.interaction_coeff / dist**6 / 2"),
    ],
}

FLOORS = {p: max(1, len(v) - 1) for p, v in MUT.items()}

out = os.path.join(os.path.dirname(os.path.dirname(os.path.abspath(__file__))), "tables", "selftest_variants.json")
json.dump({"_doc": "built-in variants for the thorough tier (generated by tools/gen_selftest_table.py); old/new are exact source fragments, a fragment that no longer occurs makes the variant stale (skipped), never an alarm", "mutants": MUT, "benign": BENIGN, "floors": FLOORS}, open(out, "w"), indent=1)
print("variants:", sum(len(v) for v in MUT.values()), "mutants,", sum(len(v) for v in BENIGN.values()), "benign")
