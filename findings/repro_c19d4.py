"""C19: "A detuning map gives each qubit the weight of the trap at its position
(zero if none)".  Traps are identified by their coordinates rounded to
1e-6 um, but get_qubit_weight_map matches with |dx| <= 1e-6 on every axis and
ADDS the weights of all matching traps, so a qubit sitting exactly on one trap
also collects the weight of the neighbouring grid points, and a qubit on no
trap gets a non-zero weight."""
import sys

import numpy as np

from pulser import Sequence
from pulser.devices import MockDevice
from pulser.register.register_layout import RegisterLayout
from pulser.sampler import sample
from pulser.waveforms import ConstantWaveform

ok = True


def check(label, got, expected):
    global ok
    good = got == expected
    print(f"  {label}: {got}  expected {expected}  "
          f"{'ok' if good else 'WRONG'}")
    ok = ok and good


# Three distinct traps (distinct after rounding to 1e-6, accepted by the
# layout, distinct IDs, exact look-up works)
layout = RegisterLayout([[0, 0], [1e-6, 0], [10, 0], [10.000002, 0],
                         [10.000001, 5]])
reg = layout.define_register(0, 1, 2, 3, 4)
print("trap ids of the register's coordinates:",
      layout.get_traps_from_coordinates(
          *[c.as_array() for c in reg.qubits.values()]))
dmap = layout.define_detuning_map({0: 0.25, 1: 0.5, 2: 0.125, 3: 0.0625})
check("weights",
      dmap.get_qubit_weight_map(reg.qubits),
      {"q0": 0.25, "q1": 0.5, "q2": 0.125, "q3": 0.0625, "q4": 0.0})

# A qubit half-way between traps 2 and 3 is on NO trap of the map
check("qubit on no trap",
      dmap.get_qubit_weight_map({"x": np.array([10.000001, 0.0])}),
      {"x": 0.0})

# What the sampler hands to the emulators
from pulser import Register  # noqa: E402

plain_reg = Register(dict(reg.qubits))  # same coordinates, no layout filling
seq = Sequence(plain_reg, MockDevice)
seq.config_detuning_map(dmap, "dmm_0")
seq.add_dmm_detuning(ConstantWaveform(100, -8.0), "dmm_0")
loc = sample(seq).to_nested_dict()["Local"]["ground-rydberg"]
check("sampled local detuning",
      {q: float(loc[q]["det"][0]) if q in loc else 0.0 for q in reg.qubit_ids},
      {"q0": -2.0, "q1": -4.0, "q2": -1.0, "q3": -0.5, "q4": 0.0})

print("PASS" if ok else "FAIL")
sys.exit(0 if ok else 1)
