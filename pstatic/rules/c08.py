"""C08 -- building a parametrized sequence equals direct construction."""
from __future__ import annotations

import ast

from ..engine import SEQ, Engine
from ..model import AnalysisError, dotted, norm
from ..report import Report
from .common import av, own_nodes, returns

EXPLANATION = (
    "OWN: the write summary of Sequence.build on non-fresh objects is limited to Variable.value/_count (the assignment of the variables) and the caller's **vars dict: building never alters the template "
    "(the replay receiver is a fresh type(self)(register, device) object; the shallow copy is only re-bound, never mutated in depth). FLOW: every element of call.args and every value of call.kwargs goes through "
    ".build() when Parametrized, and the built lists are what is replayed; ParamObj.build does the same for its own args/kwargs/cls and rebuilds whenever the update counter of any of its variables changed. "
    "PAIR: every write of Variable.value is accompanied by a bump of Variable._count (cache invalidation). REPLAY: stored calls are replayed through getattr(seq, call.name) in order, _calls[1:] first, then "
    "_to_build_calls. MAP: a mappable register resolves traps in declared qubit order and index-based targeting indexes the register's qubit order. NOT decided: equality of the built sequences (runtime). ARGS: queries on a parametrized sequence read the stored calls' positional arguments by constant index only where the argument must be positional, and keywords only where the parameter cannot have been positional. Round 3 (added): every return of build() is a freshly constructed sequence (never the shallow copy of the template); _set_register retargets every Global channel (no other exclusion); a by-name search of the call record covers _calls and _to_build_calls (one frozen exception: declared_channels)."
    ' Round 4 (added): a list key stored by Variable.__getitem__ requires VariableItem to define its own __hash__ (targets are collected in sets).'
    " Round 5 (added): build resolves the register under `qubits is not None`; align checks names against declared_channels; the SLM-DMM 'waiting for first pulse' guard is evaluated only when not parametrized; _set_register adds the explicit phase-shift targets to the used qubits; build evaluates Parametrized members of collection arguments (KNOWN finding)."
    ' Round 6 (added after the fifth independent round of breaking changes): a hand-made call record (append(_Call(...))) goes to _to_build_calls only under is_parametrized() and to _calls otherwise (declare_channel / set_magnetic_field are always regular, with reasons); the recorded phase-shift targets scanned by _set_register are call.args[1:] (args[0] is the angle).'
)
ASSUMPTIONS = ["effects are tracked at (class, field) granularity with fresh/self roots", "formulas, guards and sibling code are matched on the symbolic normal form (pstatic/sym.py): temporaries, private helpers, conditional forms and operand order do not matter; state mutation between two reads of one access path is not modelled (orderings are taken from the program order of the logged calls)"]

PO = "pulser.parametrized.paramobj.ParamObj"
VAR = "pulser.parametrized.variable.Variable"


def _built_comprehensions(f) -> dict[str, ast.AST]:
    """local name -> comprehension that applies `.build() if isinstance(x, Parametrized) else x` to every element."""
    out = {}
    for n in own_nodes(f):
        if isinstance(n, ast.Assign) and isinstance(n.targets[0], ast.Name) and isinstance(n.value, (ast.ListComp, ast.DictComp)):
            comp = n.value
            elt = comp.elt if isinstance(comp, ast.ListComp) else comp.value
            g = comp.generators[0]
            if not comp.generators or g.ifs:
                continue
            if isinstance(elt, ast.IfExp) and isinstance(elt.test, ast.Call) and (dotted(elt.test.func) or "") == "isinstance":
                var = norm(elt.test.args[0])
                built = isinstance(elt.body, ast.Call) and isinstance(elt.body.func, ast.Attribute) and elt.body.func.attr == "build" and norm(elt.body.func.value) == var
                same = norm(elt.orelse) == var
                cls_ok = norm(elt.test.args[1]) in ("Parametrized", "pulser.parametrized.Parametrized")
                if built and same and cls_ok:
                    out[n.targets[0].id] = (comp, norm(g.iter))
    return out


_SCAN_EXCEPTIONS = {
    "Sequence._set_register": "collects the explicit phase-shift targets of the calls already executed on the mappable register (_calls); the calls of _to_build_calls are replayed on the resolved register right afterwards, where an unmapped target raises by itself",
    "Sequence.declared_channels": "starts from the channels of the schedule, which already reflect every regular call; only the deferred DMM/SLM configurations have to be added from _to_build_calls",
}


_REGULAR_RECORDS = {
    "Sequence.declare_channel": "documented: the channel declaration is always stored as a regular call (its arguments are never variables; build() needs every channel before it replays anything; a parametrized initial target is stored separately as a target call)",
    "Sequence.set_magnetic_field": "configuration of the (still empty) sequence: allowed only before any channel is declared, so never after the sequence became parametrized",
}


def run(E: Engine, rep: Report, tier: str) -> dict:
    E.prepare_summaries()
    P = E.P
    build = E.method(SEQ, "build")
    # ---------------------------------------------------------------- OWN
    w, _r = E.S.of(E.R.effective(build))
    allowed = {("Variable", "value"), ("Variable", "_count")}
    bad = sorted({(x.owner.split(".")[-1], x.field, x.op, x.origin) for x in w if x.root not in ("fresh",) and not x.owner.startswith("?param:vars") and (x.owner.split(".")[-1], x.field) not in allowed})
    rep.check(not bad, "OWN", "Sequence.build|template-untouched", "non-fresh writes of build: only Variable.value/_count", f"Sequence.build can write to the template: {bad}", E.where(build))
    for x in sorted({(x.owner.split(".")[-1], x.field) for x in w if (x.owner.split(".")[-1], x.field) in allowed}):
        rep.ok("OWN", f"Sequence.build|writes|{x[0]}.{x[1]}", "allowed: assignment of the variable values", E.where(build))
    # the replay receiver is a fresh object
    fl = E.flow(build)
    n_replay = 0
    for _n, _i, e in fl.all_events():
        if e.kind == "reflective":
            n_replay += 1
            from ..resolve import reflective_getattr

            recv = reflective_getattr(e.node, fl.ctx).args[0]
            roots = fl.roots(recv)
            rep.check(roots <= {"fresh"}, "OWN", f"Sequence.build|replay-receiver-fresh|{norm(recv)}", "calls are replayed on a freshly constructed sequence", f"build replays calls on `{norm(recv)}` whose provenance is {sorted(roots)} (not a fresh object): the template itself could be modified", E.where(build, e.node))
    if n_replay < 2:
        rep.error("Sequence.build: fewer than 2 replay sites found")
    # the shallow copy is only re-bound (no in-depth mutation through it)
    for n in own_nodes(build):
        if isinstance(n, ast.Call) and isinstance(n.func, ast.Attribute) and n.func.attr in ("append", "extend", "update", "pop", "clear", "insert", "remove") and norm(n.func.value).startswith("seq."):
            rep.violation("OWN", f"Sequence.build|shallow-copy-mutated|{norm(n)[:40]}", f"`{norm(n)}` mutates a container shared with the template through the shallow copy", E.where(build, n))
    rep.floor("OWN", 4)

    # --------------------------------------------------------------- FLOW
    from .. import sym
    from .symutil import S, arg, branches, elem_of, has, is_, mentions, sh, unobj

    Sb = S(E, build)
    own = [l for l in Sb.log if l.fn == build.short]
    replays = [l for l in own if l.kind == "call" and l.target is not None and l.target[0] == "call" and l.target[1] == ("name", "getattr")]

    def built_comp(t, src, kind: str) -> bool:
        """t = [x.build() if isinstance(x, Parametrized) else x for x in src]  (or the dict analogue over src.items())"""
        t = unobj(t)
        if t is None or t[0] != "comp" or len(t[3]) != 1 or t[3][0][1] != sym.TRUE:
            return False
        it = t[3][0][0]
        if kind == "list":
            m = is_(t[2], "Q_x.build() if isinstance(Q_x, Parametrized) else Q_x")
            return it == src and m is not None and elem_of(m["Q_x"], it)
        if it != ("call", ("attr", src, "items"), (), ()) or t[2][0] != "tuple":
            return False
        k, v = t[2][1], t[2][2]
        m = is_(v, "Q_x.build() if isinstance(Q_x, Parametrized) else Q_x")
        return m is not None and k[0] == "item" and k[2] == 0 and elem_of(k[1], it) and m["Q_x"] == ("item", k[1], 1)

    tb = [l for l in replays if l.loops and l.loops[-1] == sym.Pattern("self._to_build_calls").term]
    rg = [l for l in replays if l.loops and is_(l.loops[-1], "Q_s._calls[1:]") is not None]
    if not tb or not rg:
        raise AnalysisError(f"anchor: Sequence.build replays: {len(rg)} over _calls[1:], {len(tb)} over _to_build_calls")
    for l in tb:
        call_ = ("elem", l.loops[-1], len(l.loops) - 1)
        stars = [a[1] for a in l.value[2] if a[0] == "star"]
        dstar = [v for k, v in l.value[3] if k == "**"]
        a_ok = len(stars) == 1 and len(l.value[2]) == 1 and built_comp(stars[0], ("attr", call_, "args"), "list")
        k_ok = len(dstar) == 1 and len(l.value[3]) == 1 and built_comp(dstar[0], ("attr", call_, "kwargs"), "dict")
        rep.check(a_ok, "FLOW", "Sequence.build|args-built", "every positional argument of a stored call is built when Parametrized", f"positional arguments of stored calls are no longer all passed through .build(): {sh(stars[0] if stars else None, 160)}", E.where(build, l.node))
        rep.check(k_ok, "FLOW", "Sequence.build|kwargs-built", "every keyword argument of a stored call is built when Parametrized", f"keyword arguments of stored calls are no longer all passed through .build(): {sh(dstar[0] if dstar else None, 160)}", E.where(build, l.node))
        name_ok = len(l.target[2]) == 2 and l.target[2][1] == ("attr", call_, "name")
        rep.check(a_ok and k_ok and name_ok, "FLOW", "Sequence.build|replays-built-arguments", "getattr(seq, call.name)(*built_args, **built_kwargs)", "the to-build replay no longer passes the built args/kwargs of the stored call under the stored name", E.where(build, l.node))
    first_tb = min(own.index(l) for l in tb)
    rep.check(max(own.index(l) for l in rg) < first_tb, "FLOW", "Sequence.build|regular-calls-first", "regular calls replayed before the to-build calls", "build no longer replays _calls[1:] before _to_build_calls", E.where(build))
    asg = [l for l in own if l.kind == "call" and l.target is not None and l.target[0] == "attr" and l.target[2] == "_assign"]
    rep.check(bool(asg) and max(own.index(l) for l in asg) < first_tb, "FLOW", "Sequence.build|assign-before-replay", "variables are assigned before parametrized calls are built", "variables are no longer assigned before the to-build replay", E.where(build))
    sr = [l for l in own if l.kind == "call" and l.target == ("attr", ("name", "self"), "_set_register")]
    if not sr:
        raise AnalysisError("anchor: _set_register call not found in Sequence.build")
    rep.check(max(own.index(l) for l in sr) < first_tb and all(arg(l, 0) == tb[0].target[2][0] for l in sr), "FLOW", "Sequence.build|register-resolved-before-replay", "the mappable register is resolved (and global slots retargeted) on the new sequence before the to-build calls are replayed", "Sequence.build installs the concrete register after (part of) the to-build replay, or on another object: instructions replayed before that still address all reserved qubit ids", E.where(build, sr[0].node))
    # ParamObj.build
    pb = E.method(PO, "build")
    Sp = S(E, pb)
    inst = [l for l in Sp.logged("store") if l.fn == pb.short and l.target == ("attr", ("name", "self"), "_instance")]
    if not inst:
        raise AnalysisError("anchor: ParamObj.build no longer stores self._instance")
    v = inst[-1].value
    stars = [a[1] for a in v[2] if a[0] == "star"] if v[0] == "call" else []
    dstar = [x for k, x in v[3] if k == "**"] if v[0] == "call" else []
    slf = ("name", "self")
    ok = len(stars) == 1 and len(dstar) == 1 and built_comp(stars[0], ("attr", slf, "args"), "list") and built_comp(dstar[0], ("attr", slf, "kwargs"), "dict")
    rep.check(ok, "FLOW", "ParamObj.build|args-and-kwargs-built", "ParamObj builds its own args and kwargs", f"ParamObj.build no longer builds all its args and kwargs: {sh(v, 200)}", E.where(pb))
    ok = v[0] == "call" and is_(v[1], "self.cls.build() if isinstance(self.cls, ParamObj) else self.cls") is not None
    rep.check(ok, "FLOW", "ParamObj.build|cls-built", "a parametrized callable is built too", f"ParamObj.build no longer builds a ParamObj `cls`: calls {sh(v[1] if v[0] == 'call' else v, 100)}", E.where(pb))
    # cache keyed on the counters of *all* variables
    ok = False
    for x in sym.conj_of(inst[-1].cond):
        m = is_(x, "Q_state != self._vars_state")
        if m is not None:
            c = unobj(m["Q_state"])
            if c[0] == "comp" and c[1] == "dict" and len(c[3]) == 1 and c[3][0][1] == sym.TRUE and c[3][0][0] == sym.Pattern("self._variables.items()").term and c[2][0] == "tuple" and c[2][2][0] == "attr" and c[2][2][2] == "_count":
                e_ = c[2][1][1] if c[2][1][0] == "item" else None
                ok = e_ is not None and c[2] == ("tuple", ("item", e_, 0), ("attr", ("item", e_, 1), "_count"))
                upd = [l for l in Sp.logged("store") if l.target == ("attr", slf, "_vars_state")]
                ok = ok and bool(upd) and unobj(upd[-1].value) == c
    rep.check(ok, "FLOW", "ParamObj.build|cache-keyed-on-all-variable-counters", "rebuilds iff the update counter of any involved variable changed", "ParamObj.build's cache is no longer keyed on the counters of all its variables: a stale instance could be returned after re-assignment", E.where(pb))
    ini = E.method(PO, "__init__")
    Si = S(E, ini)
    ups = [l for l in Si.log if l.fn == ini.short and l.kind == "call" and l.target == sym.Pattern("self._variables.update").term]
    covered: set = set()
    for l in ups:
        m_ = is_(arg(l, 0), "Q_x.variables") if l.loops else None
        if m_ is None or not elem_of(m_["Q_x"], l.loops[-1]):
            continue
        it_ = unobj(l.loops[-1])
        covered |= set(it_[2]) if it_[0] == "call" and it_[1] in (("name", "chain"), ("attr", ("name", "itertools"), "chain")) else {it_}
    ok = {("name", "args"), sym.Pattern("kwargs.values()").term} <= covered
    rep.check(ok, "FLOW", "ParamObj.__init__|collects-variables-of-args-and-kwargs", "variables of args and kwargs are collected", "ParamObj no longer collects the variables of both args and kwargs", E.where(ini))
    rep.floor("FLOW", 10)

    # --------------------------------------------------------------- PAIR
    var = P.cls(VAR)
    n_pair = 0
    for mname, fs in var.methods.items():
        for f in fs:
            fl2 = E.flow(f)
            wv = [e for _n, _i, e in fl2.all_events() if e.kind == "write" and any(fld == "value" for _o, fld in e.places)]
            wc = [e for _n, _i, e in fl2.all_events() if e.kind == "write" and any(fld == "_count" for _o, fld in e.places)]
            if wv:
                n_pair += 1
                rep.check(bool(wc), "PAIR", f"Variable.{mname}|value-write-bumps-_count", "value write paired with a counter bump", f"Variable.{mname} writes `value` without bumping `_count`: ParamObj caches would return stale objects", E.where(f))
                for e in wc:
                    if e.text and "_count" in e.text:
                        rep.check("self._count + 1" in e.text, "PAIR", f"Variable.{mname}|_count-incremented", "_count = _count + 1", f"`{e.text}` does not increment the counter", E.where(f, e.node))
    # no other writer of Variable.value anywhere
    writers = set()
    for f in P.all_functions():
        if f.kind == "overload":
            continue
        for _n, _i, e in E.flow(f).all_events():
            if e.kind == "write" and any(o == VAR and fld == "value" for o, fld in e.places):
                writers.add(f.short)
    rep.check(writers <= {"Variable._clear", "Variable._assign", "Variable.build"}, "PAIR", "Variable.value|who-may-write", f"writers {sorted(writers)}", f"Variable.value is written outside _assign/_clear: {sorted(writers - {'Variable._clear', 'Variable._assign'})}", E.where_mod(var.module.relpath, var.node))
    rep.floor("PAIR", 3)

    # ---------------------------------------------------------------- MAP
    br = E.fn("pulser.register.mappable_reg.MappableRegister.build_register")
    declared = (sym.Pattern("self._qubit_ids").term, sym.Pattern("self.qubit_ids").term)
    ok = False
    for l in S(E, br).calls("define_register"):
        comps = [t for t in sym.subterms(l.value) if t[0] == "comp" and len(t[3]) == 1]
        ok = bool(comps) and all(t[3][0][0] in declared for t in comps)
    rep.check(ok, "MAP", "MappableRegister.build_register|declared-order", "qubits placed in declared order", "build_register no longer iterates the declared qubit ids when selecting the traps / ids handed to define_register", E.where(br))
    cq = E.method(SEQ, "_check_qubits_give_ids")
    rq = S(E, cq).ret
    ok = rq is not None and any(m_["Q_i"][0] == "elem" and unobj(m_["Q_i"][1]) == ("name", "qubits") for m_ in sym.find_all(rq, sym.Pattern("self._register.qubit_ids[int(Q_i)]")))
    rep.check(ok, "MAP", "Sequence._check_qubits_give_ids|index-against-register-order", "indices resolve against register.qubit_ids", "index targeting no longer resolves against the register's qubit order", E.where(cq))
    sr = E.method(SEQ, "_set_register")
    stores = {l.target[2]: l.value for l in S(E, sr).logged("store") if l.target is not None and l.target[0] == "attr" and l.target[1] == ("name", "seq")}
    ok = unobj(stores.get("_register", ("?",))) == ("name", "reg") and is_(unobj(stores.get("_qids", ("?",))), "set(reg.qubit_ids)") is not None
    rep.check(ok, "MAP", "Sequence._set_register|register-and-ids-updated", "the built sequence gets the concrete register and its ids", f"_set_register no longer updates both the register and the qubit-id set of the built sequence (stores: { {k: sh(v, 40) for k, v in stores.items()} })", E.where(sr))
    # every Global channel (DMM channels included) gets the resolved register's qubits as targets: the slot rewrite is
    # conditioned on the addressing only
    slot_stores = [l for l in S(E, sr).logged("store") if l.target is not None and l.target[0] == "idx" and unobj(l.target[1])[0] == "attr" and unobj(l.target[1])[2] == "slots"]
    ok = bool(slot_stores) and all(all(mentions(x, "addressing") for x in sym.conj_of(l.cond)) and any(is_(x, "Q_c.addressing == 'Global'") is not None for x in sym.conj_of(l.cond)) for l in slot_stores)
    rep.check(ok, "MAP", "Sequence._set_register|every-global-channel-retargeted", "slots of every channel with Global addressing are rewritten (no other exclusion)", f"_set_register rewrites the targets of Global channels only under `{[sh(l.cond, 120) for l in slot_stores]}`: a Global channel that is skipped (e.g. a DMM) keeps the reserved ids of the mappable register as targets", E.where(sr))
    # a search of the call record by call name covers the regular *and* the deferred (to-build) calls: a sequence
    # that became parametrized half-way has its earlier configuration calls in _calls and the later ones in _to_build_calls
    n_scan = 0
    for g in E.P.all_functions():
        if not g.module.name.startswith("pulser.sequence") or g.kind == "overload" or ("_to_build_calls" not in norm(g.node) and "_calls" not in norm(g.node)):
            continue
        seen_it: set = set()
        Sg_ = S(E, g, inline=False)
        cands = [(l.loops[-1], l.cond) for l in Sg_.log if l.loops] + [(t[3][0][0], t[3][0][1]) for l in Sg_.log for top in (l.value, l.target) if top is not None for t in sym.subterms(top) if t[0] == "comp" and len(t[3]) == 1]
        for it_, cond_ in cands:
            if not (mentions(it_, "_calls") or mentions(it_, "_to_build_calls")) or it_ in seen_it:
                continue
            el = ("elem", it_, 0)
            by_name = any(x[0] == "cmp" and x[1] in ("Eq", "NotEq", "In", "NotIn") and ("attr", el, "name") in (x[2], x[3]) for c_ in sym.conj_of(cond_) for x in ([c_] if c_[0] != "or" else list(c_[1:])))
            if not by_name:
                continue
            seen_it.add(it_)
            n_scan += 1
            both = any(t[0] == "attr" and t[2] == "_calls" for t in sym.subterms(it_)) and mentions(it_, "_to_build_calls")
            if not both and g.short in _SCAN_EXCEPTIONS:
                rep.excepted("FLOW", f"{g.short}|call-record-scan-covers-both-lists|{sh(it_, 40)}", _SCAN_EXCEPTIONS[g.short], E.where(g))
                continue
            rep.check(both, "FLOW", f"{g.short}|call-record-scan-covers-both-lists|{sh(it_, 40)}", "searches _calls and _to_build_calls", f"{g.short} looks for calls by name in `{sh(it_, 80)}` only: configuration calls stored in the other list (made before / after the sequence became parametrized) are not seen", E.where(g))
    if n_scan < 3:
        rep.error(f"only {n_scan} by-name scans of the call record found (expected is_in_eom_mode, _validate_and_adjust_pulse, switch_device, ...)")
    # a call recorded by hand goes to the list the `store` decorator would have chosen: _to_build_calls once the sequence is
    # parametrized, _calls before (build replays _calls first: a regular call put in _to_build_calls is replayed AFTER the
    # regular calls that followed it)
    n_man = 0
    for g in E.P.all_functions():
        if not g.module.name.startswith("pulser.sequence") or g.kind == "overload" or "_Call(" not in norm(g.node):
            continue
        for l in S(E, g, inline=False).calls("append"):
            a0 = unobj(arg(l, 0)) if arg(l, 0) is not None else None
            if a0 is None or a0[0] != "call" or a0[1] != ("name", "_Call"):
                continue
            recv = unobj(l.target[1])
            if not (mentions(recv, "_calls") or mentions(recv, "_to_build_calls")):
                continue
            n_man += 1
            ok_c = False
            for conds, leaf in branches(recv):
                lits = set(conds) | set(sym.conj_of(l.cond))
                par = any(is_(x, "self.is_parametrized()") is not None or x == sym.mk_not(("attr", ("name", "self"), "_building")) for x in lits)
                reg = any(is_(x, "not self.is_parametrized()") is not None or x == ("attr", ("name", "self"), "_building") for x in lits)
                leaf = unobj(leaf)
                good = (leaf == ("attr", ("name", "self"), "_to_build_calls") and par) or (leaf == ("attr", ("name", "self"), "_calls") and reg)
                if not good:
                    break
            else:
                ok_c = True
            if not ok_c and recv == ("attr", ("name", "self"), "_calls") and g.short in _REGULAR_RECORDS:
                rep.excepted("FLOW", f"{g.short}|manual-call-record-in-the-list-of-its-mode|always-regular", _REGULAR_RECORDS[g.short], E.where(g, l.node))
                continue
            rep.check(ok_c, "FLOW", f"{g.short}|manual-call-record-in-the-list-of-its-mode|{sh(a0[2][0], 30) if a0[2] else ''}", "_to_build_calls if parametrized else _calls", f"{g.short} appends its hand-made call record to `{sh(recv, 80)}` whatever the mode: a call made before the sequence became parametrized must go to _calls (build() replays _calls first, so a regular call kept in _to_build_calls is replayed after the regular calls that followed it -- later pulses get the old setpoint)", E.where(g, l.node))
    if n_man < 3:
        rep.error(f"only {n_man} hand-made call records found (expected store decorator, enable_eom_mode, modify_eom_setpoint)")
    rep.floor("MAP", 3)
    # build() refuses an incomplete assignment whatever else is wrong with it: the "Did not receive values" rejection
    # depends on the missing names only (not on whether unknown names were also given) -- otherwise a variable keeps
    # the value of the previous build and successive builds are no longer independent
    ccv = E.method(SEQ, "_cross_check_vars")
    miss = [l for l in S(E, ccv).logged("raise") if l.value is not None and "TypeError" in sh(l.value, 40)]
    if not miss:
        raise AnalysisError("anchor: the missing-variables TypeError of Sequence._cross_check_vars was not found")
    for l in miss:
        lits = sym.conj_of(l.cond)
        invalid_t = sym.Pattern("vars.keys() - self._variables.keys()").term
        dep = [x for x in lits if sym.contains(x, invalid_t)]
        has_missing = any(sym.contains(x, sym.Pattern("self._variables.keys() - vars.keys()").term) for x in lits)
        rep.check(has_missing and not dep, "FLOW", "Sequence._cross_check_vars|missing-variables-refused-unconditionally", "raised iff some declared variable got no value", f"the rejection of missing variables is reached only under `{[sh(x, 80) for x in dep]}` (a condition on the *unknown* names): with a misspelt name in the same call the missing variable silently keeps its previous value", E.where(ccv, l.node))
    # every sequence returned by build() is a freshly constructed one (`type(seq)(register=..., device=...)` replayed
    # from the record), never the shallow `copy.copy(self)`, which shares the schedule, the call record and the phase
    # references with the template
    bd = E.method(SEQ, "build")
    rets = [l for l in S(E, bd).logged("return") if l.value is not None and l.fn == bd.short]
    if not rets:
        raise AnalysisError("anchor: Sequence.build has no return")
    for i_, l in enumerate(rets):
        v = unobj(l.value)
        fresh = v[0] == "call" and is_(v[1], "type(Q_s)") is not None and {k for k, _x in v[3]} >= {"register", "device"}
        shallow = is_(v, "copy.copy(self)") is not None or is_(v, "copy(self)") is not None or v == ("name", "self")
        rep.check(fresh and not shallow, "OWN", f"Sequence.build|returns-a-fresh-sequence|return{i_}", "the returned sequence is constructed anew and replayed", f"Sequence.build returns `{sh(v, 80)}` under `{sh(l.cond, 120)}`: " + ("a shallow copy shares _schedule, _calls and _basis_ref with the template, so later calls on either sequence change both" if shallow else "not a sequence constructed by type(seq)(register=..., device=...)"), E.where(bd, l.node))
    # "all qubits" of a phase shift without explicit targets are the register's qubits (the phase bookkeeping of a
    # mappable register still lists every reserved id after the register was resolved)
    psf = E.method(SEQ, "_phase_shift")
    cq = [l for l in S(E, psf, inline=False).calls("_check_qubits_give_ids") if l.fn == psf.short]
    ok = bool(cq)
    for l in cq:
        stars = [a[1] for a in l.value[2] if a[0] == "star"]
        alts = [leaf for st_ in stars for _c, leaf in __import__("pstatic.rules.symutil", fromlist=["branches"]).branches(st_)]
        given = ("name", psf.node.args.vararg.arg) if psf.node.args.vararg is not None else None
        ok = ok and bool(alts) and all(leaf == given or leaf == sym.Pattern("self._register.qubit_ids").term for leaf in alts) and any(leaf == sym.Pattern("self._register.qubit_ids").term for leaf in alts)
    rep.check(ok, "FLOW", "Sequence._phase_shift|default-targets-are-the-register-qubits", "without explicit targets the shift applies to self._register.qubit_ids", "a phase shift without explicit targets no longer ranges over the register's qubits: after a mappable register was resolved to a subset of its ids, a bookkeeping table (e.g. _basis_ref) still lists unmapped ids and the built sequence is rejected while the direct construction succeeds", E.where(psf))
    # Variable.__getitem__: a single index and a sequence of indices are bounded by the same predicate
    vg = E.method("pulser.parametrized.variable.Variable", "__getitem__")
    preds = []
    for l in S(E, vg).logged("assign"):
        if l.fn != vg.short or l.value is None or l.value == sym.NONE:
            continue
        subject = l.value
        about = [x for x in sym.conj_of(l.cond) if mentions(x, "size") and sym.contains(x, subject) and not any(t[0] == "call" and t[1] == ("name", "isinstance") for t in sym.subterms(x))]
        if not about:
            continue
        lits = frozenset(sym.subst(x, lambda t, s_=subject: ("name", "Q_k") if t == s_ else None) for x in about)
        preds.append((subject, lits))
    ok = len(preds) >= 2 and len({p for _s, p in preds}) == 1
    rep.check(ok, "SIB", "Variable.__getitem__|same-bounds-for-int-and-sequence", "an integer key and every element of a sequence key are rejected by the same bounds predicate", f"Variable.__getitem__ bounds a single index and the elements of an index list differently: {[sorted(sym.show(x) for x in p) for _s, p in preds]} -- an item that the evaluated array accepts (e.g. [-size]) is refused for the variable, so the parametrized program cannot be written although the direct one is valid", E.where(vg))
    # ---- round 5 (defects found by an independent audit, each repaired in /repo and kept from coming back) ----
    # (1) a mapping given to build() resolves the register whatever it holds: `qubits` is tested with `is not None`
    #     (an empty mapping is not "no mapping": build_register({}) raises, the direct construction has no register)
    sr_calls = [l for l in Sb.calls("_set_register") if l.fn == build.short]
    if not sr_calls:
        raise AnalysisError("anchor: Sequence.build no longer calls _set_register")
    for l in sr_calls:
        lits_ = sym.conj_of(l.cond)
        truthy = ("name", "qubits") in lits_
        isnot = any(x[0] == "cmp" and x[1] == "IsNot" and ("name", "qubits") in (x[2], x[3]) and sym.NONE in (x[2], x[3]) for x in lits_)
        rep.check(isnot and not truthy, "FLOW", "Sequence.build|qubits-mapping-tested-with-is-not-None", "the register is resolved under `qubits is not None`", "Sequence.build resolves the mappable register only when `qubits` is truthy: build(qubits={}) returns a sequence that still has the MappableRegister, where build_register({}) raises", E.where(build, l.node))
    # (2) channel names given to align() are compared with declared_channels (which lists the DMM channels whose
    #     configuration is stored for build time), like every other check -- not with the schedule
    al = E.method(SEQ, "align")
    al_raises = [l for l in S(E, al).logged("raise") if l.fn == al.short and any(mentions(x, "channels") for x in sym.conj_of(l.cond))]
    if not al_raises:
        raise AnalysisError("anchor: Sequence.align no longer rejects undeclared channel names")
    for l in al_raises[:1]:
        rep.check(mentions(l.cond, "declared_channels") and not any(t == ("attr", ("name", "self"), "_schedule") for t in sym.subterms(l.cond)), "FLOW", "Sequence.align|names-checked-against-declared_channels", "`set(channels) <= set(self.declared_channels)`",
                  f"align() validates the channel names under `{sh(l.cond, 100)}`, i.e. against the schedule: on a parametrized sequence a DMM configured by a stored config_detuning_map / config_slm_mask call is declared but not yet in the schedule, so align('ryd', 'dmm_0') is refused although the same program with values is valid", E.where(al, l.node))
    # (3) the SLM-mask DMM 'waiting for its first pulse' guard reads schedule state that stored (not yet executed)
    #     pulses cannot have changed: it is evaluated only when the sequence is not parametrized
    vch = E.method(SEQ, "_validate_channel")
    wf_raises = [l for l in S(E, vch, inline=False).logged("raise") if mentions(l.cond, "_waiting_for_first_pulse")]
    if not wf_raises:
        # (the guard may sit in a private boolean helper: read it on the inlined normal form)
        wf_raises = [l for l in S(E, vch).logged("raise") if l.fn == vch.short and mentions(l.cond, "_waiting_for_first_pulse")]
    if not wf_raises:
        raise AnalysisError("anchor: Sequence._validate_channel no longer has the SLM-mask DMM guard")
    for l in wf_raises:
        np_ = any(is_(x, "not self.is_parametrized()") is not None or is_(x, "self._building") is not None for x in sym.conj_of(l.cond))
        rep.check(np_, "FLOW", "Sequence._validate_channel|slm-dmm-guard-only-when-not-parametrized", "raised under `not self.is_parametrized()`", "the 'add a pulse to a Global channel first' guard of the SLM-mask DMM is evaluated on a parametrized sequence, where Global pulses are stored instead of scheduled and never clear the flag: add_dmm_detuning / add / delay on that DMM raise although the direct program is valid", E.where(vch, l.node))
    # (4) resolving a mappable register checks every qubit the recorded calls name explicitly: the targets of Local
    #     channels AND of phase_shift / phase_shift_index
    sreg = E.method(SEQ, "_set_register")
    names_ = {x[3][1] if x[2][0] != "const" else x[2][1] for l in S(E, sreg, inline=False).log for x in sym.subterms(l.cond) if x[0] == "cmp" and x[1] == "Eq" and any(y[0] == "const" and isinstance(y[1], str) and y[1].startswith("phase_shift") for y in (x[2], x[3]))}
    rep.check({"phase_shift", "phase_shift_index"} <= names_, "FLOW", "Sequence._set_register|phase-shift-targets-must-be-mapped", "recorded phase_shift / phase_shift_index targets are added to the used qubits", f"_set_register compares only the targets of Local channels with the mapped qubits (by-name scans found: {sorted(names_)}): a phase shift recorded for a qubit that the mapping leaves out survives build(qubits=...), where the direct construction raises", E.where(sreg))
    #     ... read from the arguments AFTER the angle: phase_shift(phi, *targets) / phase_shift_index(phi, *indices) keep phi
    #     in args[0], which is not a qubit
    for l in S(E, sreg, inline=False).calls("update"):
        if not any(x[0] == "cmp" and x[1] == "Eq" and any(y[0] == "const" and isinstance(y[1], str) and y[1].startswith("phase_shift") for y in (x[2], x[3])) for x in sym.conj_of(l.cond)) or not l.value[2]:
            continue
        stripped = sym.subst(l.value[2][0], lambda t: ("const", "<targets>") if t and t[0] == "idx" and len(t) > 2 and isinstance(t[1], tuple) and len(t[1]) > 2 and isinstance(t[2], tuple) and len(t[2]) > 1 and t[1][0] == "attr" and t[1][2] == "args" and t[2][0] == "slice" and t[2][1] == ("const", 1) else None)
        whole = [t for t in sym.subterms(stripped) if t[0] == "attr" and t[2] == "args"]
        which = next((y[1] for x in sym.conj_of(l.cond) if x[0] == "cmp" and x[1] == "Eq" for y in (x[2], x[3]) if y[0] == "const" and isinstance(y[1], str) and y[1].startswith("phase_shift")), "?")
        rep.check(not whole, "FLOW", f"Sequence._set_register|phase-shift-targets-exclude-the-angle|{which}", "targets are call.args[1:]", f"_set_register reads the targets of a recorded {which} from `{sh(l.value[2][0], 100)}`: args[0] is the angle phi, so its integer part is taken for a qubit (index) -- build(qubits=...) raises for phi = 3.5 ('q3' not assigned a trap) although the direct construction accepts the same calls", E.where(sreg, l.node))
    # (5) the template accepts variables INSIDE a collection argument (target_index([0, var], ch): verify_variable and
    #     _check_qubits_give_ids look into the collection), so build() has to evaluate the members of list/tuple
    #     arguments too -- it evaluates top-level Parametrized arguments only
    tb_args = [a[1] for l in tb for a in l.value[2] if a[0] == "star"]
    deep = any(any(t[0] == "call" and t[1] == ("name", "isinstance") and len(t[2]) == 2 and any(y in (("name", "list"), ("name", "tuple"), ("name", "Collection"), ("name", "Iterable")) for y in sym.subterms(t[2][1])) for t in sym.subterms(a_)) for a_ in tb_args)
    rep.check(deep, "FLOW", "Sequence.build|members-of-collection-arguments-built", "Parametrized members of list/tuple arguments are evaluated", "Sequence.build evaluates an argument only when the argument itself is Parametrized: a collection holding a variable item (target_index([0, var], ch), accepted by the template) reaches the new sequence unevaluated and build() raises 'Unknown variable', where the direct target_index([0, 2], ch) is valid", E.where(build))
    # a variable item is usable wherever the evaluated value is: the sequence collects targets in sets, so an item must
    # be hashable for every key kind Variable.__getitem__ produces.  VariableItem is a frozen dataclass (generated hash
    # over var and key): if __getitem__ can store a list key, the class has to define its own __hash__.
    vi = E.cls("pulser.parametrized.variable.VariableItem")
    made = [l for l in S(E, vg).logged("return") if l.value is not None]
    keys_ = [a_ for l in made for v_ in [unobj(l.value)] if v_[0] == "call" and v_[1] == ("name", "VariableItem") for a_ in [v_[2][1] if len(v_[2]) > 1 else dict(v_[3]).get("key")] if a_ is not None]
    if not keys_:
        raise AnalysisError("anchor: Variable.__getitem__ no longer returns VariableItem(self, key)")
    list_key = any(t[0] == "list" or (t[0] == "comp" and t[1] == "list") or (t[0] == "call" and t[1] == ("name", "list")) for k_ in keys_ for t in sym.subterms(k_))
    own_hash = "__hash__" in vi.methods
    rep.check(own_hash or not list_key, "SIB", "VariableItem|hashable-for-every-key-kind", "a list key is only stored if VariableItem defines __hash__", "Variable.__getitem__ stores a sequence of indices as a list, and VariableItem (a frozen dataclass without its own __hash__) hashes its key: `seq.target_index(var[[0, 2]], ch)` raises TypeError (unhashable type: 'list') where the direct call with [0, 2] is accepted", E.where(vg))
    # ARGS: queries on a parametrized sequence read the stored (not yet executed) calls; they may index the positional
    # arguments only where the argument must be positional -- otherwise a call the direct construction accepts makes
    # the template raise IndexError
    from .. import callargs

    scopes = [f for f in callargs.default_scopes(E, ("pulser.sequence",)) if not f.module.name.endswith("_switch_device")]
    extra = callargs.check(E, rep, scopes, "ARGS")
    rep.floor("ARGS", 3)
    return {"replay_sites": n_replay, "value_writers": sorted(writers), **extra}
