"""C11: QutipBackendV2 skipped a pulse that follows an idle period (it disagreed with QutipEmulator.run).

QutipEmulator.run() passes the solver options through _validate_options, which sets max_step from the samples;
QutipBackendV2.run() called _run_solver / _noisy_runs without any options, so the adaptive solver stepped over a
100 ns pi-pulse placed after a 2 us delay: P(r) = 0 instead of 1.
Found by rule PASS (pstatic/rules/c11.py).  Exits 1 when the defect is present.
"""
import sys

import numpy as np
from pulser import Pulse, Register, Sequence
from pulser.backend import StateResult
from pulser.devices import MockDevice
from pulser_simulation import QutipBackendV2, QutipConfig, QutipEmulator

reg = Register({"q0": (0, 0)})
bad = []
for idle in (0, 2000, 20000):
    seq = Sequence(reg, MockDevice)
    seq.declare_channel("ch", "rydberg_global")
    if idle:
        seq.delay(idle, "ch")
    seq.add(Pulse.ConstantPulse(100, np.pi / 0.1, 0.0, 0.0), "ch")  # a pi pulse
    legacy = QutipEmulator.from_sequence(seq).run().get_final_state()
    res = QutipBackendV2(seq, config=QutipConfig(observables=[StateResult(evaluation_times=[1.0])])).run()
    v2 = res.get_result("state", 1.0)._state
    p_legacy, p_v2 = abs(legacy.full()[0, 0]) ** 2, abs(v2.full()[0, 0]) ** 2
    if abs(p_legacy - p_v2) > 1e-3:
        bad.append((idle, round(p_legacy, 4), round(p_v2, 4)))
if bad:
    print("DEFECT: legacy and V2 disagree after an idle period (idle ns, P(r) legacy, P(r) V2):", bad)
    sys.exit(1)
print("ok: the V2 backend and QutipEmulator.run give the same final state after idle periods")
