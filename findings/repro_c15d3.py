"""C15 - an EOM block closed at t=0 makes modulate() treat the whole channel
as being in EOM mode.

`ChannelSamples.modulate()` takes the end of a block as `block.tf or
self.duration`. A block that is enabled and then modified (or disabled) before
anything was played on the channel has tf == 0, which is falsy, so the block
is taken to last for the whole duration: the buffers and all the ordinary
pulses that follow are modulated with the (much larger) EOM bandwidth.
"""
import sys

import numpy as np

from pulser import Pulse, Register, Sequence
from pulser.channels import Rydberg
from pulser.channels.eom import RydbergBeam, RydbergEOM
from pulser.devices import VirtualDevice
from pulser.sampler import sample

DEVICE = VirtualDevice(
    name="Dev",
    dimensions=2,
    rydberg_level=70,
    channel_objects=(
        Rydberg.Global(
            1000,
            200,
            clock_period=1,
            min_duration=1,
            mod_bandwidth=4.0,
            eom_config=RydbergEOM(
                mod_bandwidth=30.0,
                limiting_beam=RydbergBeam.RED,
                max_limiting_amp=50 * 2 * np.pi,
                intermediate_detuning=800 * 2 * np.pi,
                controlled_beams=(RydbergBeam.BLUE,),
            ),
        ),
    ),
)


def build(modify_first: bool) -> Sequence:
    seq = Sequence(Register({"q0": (0, 0), "q1": (50, 0)}), DEVICE)
    seq.declare_channel("ch", "rydberg_global")
    if modify_first:
        # The setpoint is changed before anything is played
        seq.enable_eom_mode("ch", 5.0, 0.0)
        seq.modify_eom_setpoint("ch", 10.0, 0.0)
    else:
        seq.enable_eom_mode("ch", 10.0, 0.0)
    seq.add_eom_pulse("ch", 100, 0.0)
    seq.disable_eom_mode("ch")
    # Ordinary operation, after the buffer
    seq.add(Pulse.ConstantPulse(200, 5.0, 0.0, 0.0), "ch")
    return seq


seq_a, seq_b = build(True), build(False)
in_a = sample(seq_a).channel_samples["ch"]
in_b = sample(seq_b).channel_samples["ch"]
# Both sequences have exactly the same input samples
for key in ("amp", "det", "phase"):
    assert np.array_equal(
        getattr(in_a, key).as_array(), getattr(in_b, key).as_array()
    )
print("EOM blocks with the early modify:", [(b.ti, b.tf) for b in in_a.eom_blocks])
print("EOM blocks without              :", [(b.ti, b.tf) for b in in_b.eom_blocks])

out_a = sample(seq_a, modulation=True).channel_samples["ch"]
out_b = sample(seq_b, modulation=True).channel_samples["ch"]
t0 = seq_a._schedule["ch"].last_pulse_slot().ti
print(f"the ordinary pulse starts at t={t0}; modulated amplitude 20 ns later:")
print("   with the early modify:", round(float(out_a.amp[t0 + 20]), 3))
print("   without              :", round(float(out_b.amp[t0 + 20]), 3))
n = min(out_a.duration, out_b.duration)
# The amplitude everywhere, and the detuning from the ordinary pulse on, must
# not depend on the setpoint having been modified at t=0
diff = max(
    float(np.max(np.abs(out_a.amp.as_array()[:n] - out_b.amp.as_array()[:n]))),
    float(
        np.max(np.abs(out_a.det.as_array()[t0:n] - out_b.det.as_array()[t0:n]))
    ),
)
print(f"max difference between the modulated samples: {diff:.3f} rad/us")
if diff > 1e-9 or out_a.duration != out_b.duration:
    print("FAIL")
    sys.exit(1)
print("PASS")
