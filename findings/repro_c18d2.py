"""C18 / strict switch_device: the detuning of the SLM mask's DMM pulse is
silently changed when the DMMs differ in bottom_detuning.

Sequence._modulate_slm_mask_dmm() sets the detuning of the SLM mask to
max(-10 * max_amp, bottom_detuning, total_bottom_detuning / n_targets), but
strict=True neither compares these parameters nor the DMM's samples.
"""
import sys
import warnings

import numpy as np

from pulser import Pulse, Register, Sequence
from pulser.channels import DMM, Rydberg
from pulser.devices import VirtualDevice
from pulser.sampler import sample

warnings.simplefilter("ignore")

reg = Register.square(2, 6, prefix="q")


def device(name, bottom_detuning):
    return VirtualDevice(
        name=name,
        dimensions=2,
        rydberg_level=60,
        supports_slm_mask=True,
        channel_objects=(Rydberg.Global(None, None),),
        dmm_objects=(DMM(bottom_detuning=bottom_detuning),),
    )


dev_a = device("A", -100.0)
dev_b = device("B", -20.0)

failed = False
for parametrized in (False, True):
    seq = Sequence(reg, dev_a)
    seq.declare_channel("ryd", "rydberg_global")
    seq.config_slm_mask(["q0", "q1"])
    amp = seq.declare_variable("amp", dtype=float) if parametrized else 5.0
    seq.add(Pulse.ConstantPulse(100, amp, 0, 0), "ryd")  # SLM det = -50
    label = "parametrized" if parametrized else "built"
    try:
        new_seq = seq.switch_device(dev_b, strict=True)
    except Exception as e:  # raising is allowed by the property
        print(f"[{label}] raised {type(e).__name__}: {str(e)[-110:]}")
        continue
    if parametrized:
        seq, new_seq = seq.build(amp=5.0), new_seq.build(amp=5.0)
    old_det = sample(seq).channel_samples["dmm_0"].det
    new_det = sample(new_seq).channel_samples["dmm_0"].det
    same = old_det.shape == new_det.shape and np.allclose(old_det, new_det)
    print(
        f"[{label}] strict switch returned; SLM mask detuning "
        f"{old_det[0]} -> {new_det[0]}"
    )
    failed |= not same

if failed:
    print("FAIL: strict=True returned a sequence with different DMM samples")
    sys.exit(1)
print("PASS")
