"""C02 - in EOM mode the pending fall time is dropped after two delays,
because the look-back window uses the channel's rise time instead of the
EOM's one (EOM slower than the channel's standard modulation)."""
import dataclasses
import sys
import warnings

from pulser import Register, Sequence
from pulser.devices import AnalogDevice

warnings.simplefilter("ignore")

ch = AnalogDevice.channels["rydberg_global"]
eom = dataclasses.replace(
    ch.eom_config, mod_bandwidth=2, custom_buffer_time=None
)
ch_obj = dataclasses.replace(ch, mod_bandwidth=20, eom_config=eom)
device = dataclasses.replace(AnalogDevice, channel_objects=(ch_obj,))
assert (ch_obj.rise_time, eom.rise_time) == (24, 240)

reg = Register.square(2, spacing=6, prefix="q")
seq = Sequence(reg, device)
seq.declare_channel("ryd", "rydberg_global")
# detuning_on chosen so that detuning_off is 0 (delays are plain delays)
det_on = -float(eom.detuning_off_options(2.0, 0.0)[0])
seq.enable_eom_mode("ryd", 2.0, det_on, 0.0)
assert seq._schedule["ryd"].eom_blocks[-1].detuning_off == 0.0
seq.add_eom_pulse("ryd", 100, 0.0)
pulse = seq._schedule["ryd"][-1].type
at_rest = 100 + pulse.fall_time(ch_obj, in_eom_mode=True)  # 100 + 480

history = [seq.get_duration("ryd", include_fall_time=True)]
seq.delay(48, "ryd")
history.append(seq.get_duration("ryd", include_fall_time=True))
seq.delay(48, "ryd")
history.append(seq.get_duration("ryd", include_fall_time=True))

print("EOM pulse ends at 100 and its output is at rest at", at_rest)
print("duration with fall time after pulse / 1 delay / 2 delays:", history)
print("plain duration:", seq.get_duration("ryd"))
ok = all(h == at_rest for h in history)
print("PASS" if ok else "FAIL")
sys.exit(0 if ok else 1)
