#!/usr/bin/env python3
"""Run every registered check on a scratch copy of the analysed packages with one patch applied.

usage: eval_patch.py <diff> [<diff> ...] [--props C01,C02]
Prints, per patch, the checks that report something (exit code + report lines).  /repo is never touched;
the scratch copy lives under $TMPDIR and is removed.  Used for both directions: a seeded (breaking) patch
should be reported by the check of its property, a benign (behaviour-preserving) patch by none.
"""
from __future__ import annotations

import json
import os
import shutil
import sys
import tempfile
from concurrent.futures import ThreadPoolExecutor

sys.path.insert(0, os.path.dirname(os.path.dirname(os.path.abspath(__file__))))
from pstatic import selftest  # noqa: E402

VERIF = selftest.VERIF


def evaluate(diff: str, props: list[str]) -> dict:
    base = tempfile.gettempdir()
    root = selftest._make_copy(base)
    try:
        stale = selftest._apply_patch(root, os.path.abspath(diff))
        if stale:
            return {"diff": diff, "error": stale}
        out = {}
        with ThreadPoolExecutor(max_workers=8) as ex:
            for pid, (rc, lines) in zip(props, ex.map(lambda p: selftest._run_check(p, root), props)):
                if rc != 0:
                    out[pid] = {"rc": rc, "lines": lines[:6]}
        return {"diff": diff, "reported_by": out}
    finally:
        shutil.rmtree(root, ignore_errors=True)


def main() -> int:
    args = [a for a in sys.argv[1:] if not a.startswith("--")]
    man = json.load(open(os.path.join(VERIF, "MANIFEST.json")))
    props = [c["property_id"] for c in man["checks"]]
    for a in sys.argv[1:]:
        if a.startswith("--props"):
            props = a.split("=", 1)[1].split(",")
    for d in args:
        r = evaluate(d, props)
        print(json.dumps(r))
    return 0


if __name__ == "__main__":
    sys.exit(main())
