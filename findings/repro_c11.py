"""C11: a config whose default_evaluation_times holds more than one time cannot be used by the V2 backend.
cd /tmp && PYTHONPATH=/repo/pulser-core:/repo/pulser-simulation /venv/bin/python -W ignore /verif/findings/repro_c11.py"""
import numpy as np
from pulser import Pulse, Register, Sequence
from pulser.devices import MockDevice
from pulser.backend.default_observables import BitStrings
from pulser_simulation import QutipBackendV2, QutipConfig

reg = Register.from_coordinates([(0, 0)], prefix="q")
seq = Sequence(reg, MockDevice)
seq.declare_channel("ch", "rydberg_global")
seq.add(Pulse.ConstantPulse(100, 1.0, 0.0, 0.0), "ch")
try:
    cfg = QutipConfig(observables=[BitStrings(num_shots=10)], default_evaluation_times=[0.5, 1.0])
    res = QutipBackendV2(seq, config=cfg).run()
    print("several_default_evaluation_times: holds")
except ValueError as e:
    print("several_default_evaluation_times: VIOLATED ( ValueError:", str(e)[:70], ")")
