"""C17 / emulation configs with states: a state that is not normalised to 1
cannot be serialised.

State._to_abstract_repr() decides that a state "was modified in place" when
its overlap with a state rebuilt from the stored amplitudes differs from 1.0.
That is only true for normalised states.  The amplitudes used as THE example
in the docstring of State.from_state_amplitudes(), {"rgr": 0.5, "grg": 0.5},
are accepted by QutipState.from_state_amplitudes() but then
EmulationConfig/QutipConfig.to_abstract_repr() raises AbstractReprError
("... was modified in place after its creation"), although nothing was
modified.
"""
import json
import sys

from pulser.backend import Energy, Fidelity
from pulser.exceptions.serialization import AbstractReprError
from pulser.json.abstract_repr.serializer import AbstractReprEncoder
from pulser_simulation import QutipConfig, QutipState

failures = []
eig = ("r", "g")
doc_amps = {"rgr": 0.5, "grg": 0.5}  # example of the from_state_amplitudes doc

cases = {
    "docstring example (norm 1/2)": doc_amps,
    "norm 2": {"rr": 1.0, "gg": 1.0},
    "normalised (control)": {"rr": 0.5**0.5, "gg": 1j * 0.5**0.5},
}
for label, amps in cases.items():
    state = QutipState.from_state_amplitudes(eigenstates=eig, amplitudes=amps)
    try:
        cfg = QutipConfig(
            initial_state=state,
            observables=[Energy(), Fidelity(state)],
        )
        cfg2 = QutipConfig.from_abstract_repr(cfg.to_abstract_repr())
    except AbstractReprError as e:
        failures.append(f"{label}: to_abstract_repr raised: {e}")
        continue
    if cfg2.initial_state != state or cfg2.observables[1].state != state:
        failures.append(f"{label}: decoded state differs from the original")

# The protection the check is there for must still work
state = QutipState.from_state_amplitudes(eigenstates=eig, amplitudes=doc_amps)
other = QutipState.from_state_amplitudes(
    eigenstates=eig, amplitudes={"rrr": 0.5, "ggg": 0.5}
)
state._state = other._state  # genuine in-place modification
try:
    json.dumps(state, cls=AbstractReprEncoder)
    failures.append("in-place modification no longer detected")
except AbstractReprError:
    pass

if failures:
    print("FAIL")
    for f in failures:
        print("  -", f)
    sys.exit(1)
print("PASS")
