"""Seeded / benign variants of the tree (thorough tier) -- filled in per rule."""
from __future__ import annotations


def run_for(prop: str, tier: str) -> int:
    return 0
