"""C19 -- layouts number traps canonically; registers, maps and layouts agree (TAINT)."""
from __future__ import annotations

import ast

from ..absval import AV, abstractor
from ..engine import Engine
from ..model import AnalysisError, ClassInfo, FunctionInfo, dotted, norm
from ..report import Report

EXPLANATION = (
    "TAINT: order-dependent attributes (the coordinates/weights as given: _coords, _coords_arr, _rounded_coords, weights, trap_coordinates) never reach a canonical sink "
    "(hash updates, __eq__, traps_dict / coordinate->trap lookups, define_register, layout validation of registers, abstract representations) except through the sorting sanitiser "
    "(indexing with the result of _calc_sorting_order()). The canonical status of every property of the CoordsCollection family is *derived* by a def-use closure over the property bodies. "
    "SIB: wherever coordinates and weights are used together, both are canonical or both raw. TABLE: _calc_sorting_order feeds lexsort with the dimensions in reversed order (x primary) and every "
    "coordinate rounding in the register package uses COORD_PRECISION (no literal). FLOW: trap identity is the coordinate rounded to COORD_PRECISION, so the uniqueness rejection of Traps.__init__ "
    "is computed on rounded coordinates too. MAP: MappableRegister.build_register hands layout.define_register the chosen ids in declared order, each paired with its mapped trap; RegisterLayout.define_register builds the register only after the trap ids "
    "were validated on both sides (membership in the layout's ids, or a lower and an upper bound: a negative id wraps around in numpy). ALIAS: no public accessor of the register classes returns a cached "
    "coordinate array itself (as_array / asarray do not copy), so the canonical coordinates cannot be edited from outside. DTYPE: sorted_coords and sorted_weights are converted to float, because __eq__ and the hash are taken over their bytes (ints and floats denote the same points). NOT decided: near-ties across the rounding boundary (numeric)."
    ' Round 4 (added): every __hash__ of a Traps subclass is hash(<canonical hash>) (no label such as the slug); get_traps_from_coordinates never takes the truth value of a looked-up trap ID (ID 0 is valid).'
    ' Round 5 (added): a qubit is matched to a trap by rounded equality (no isclose-and-sum); negative zeros are normalised in the rounded coordinates; Traps.__init__ stores its own copy; no itemgetter(*keys) collection of coordinates (KNOWN: single trap).'
    ' Round 6 (added after the fifth independent round of breaking changes): the `+ 0.0` normalisation is applied to the rounded array (its operand contains the rounding call); the qubit position is converted with dtype=float before it is rounded (np.round keeps float32).'
    ' Round 7 (added after the sixth, smaller round of breaking changes): Traps.__init__ stores a float64 conversion (dtype=float); no builtin round(x, COORD_PRECISION) in the register package (np.round and round() disagree on half-way values).'
)
ASSUMPTIONS = ["attribute-level taint inside the CoordsCollection class family; aliasing through locals is followed by the guard abstraction"]

CC = "pulser.register._coordinates.CoordsCollection"
RAW = {"_coords", "_coords_arr", "_rounded_coords", "weights", "trap_coordinates", "_traps"}
SANITISER = "_calc_sorting_order"


class Taint:
    def __init__(self, E: Engine):
        self.E = E
        self.P = E.P
        cc = self.P.cls(CC)
        self.family = [cc] + self.P.subclasses(cc)
        self._status: dict[tuple[str, str], str] = {}
        self._busy: set = set()

    def attr_status(self, c: ClassInfo, attr: str) -> str:
        """'raw' | 'canonical' | 'neutral' for ``self.<attr>`` of an instance of ``c``."""
        key = (c.qualname, attr)
        if key in self._status:
            return self._status[key]
        if key in self._busy:
            return "neutral"
        self._busy.add(key)
        try:
            st = self._attr_status(c, attr)
        finally:
            self._busy.discard(key)
        self._status[key] = st
        return st

    def _attr_status(self, c: ClassInfo, attr: str) -> str:
        fs = self.P.lookup_method(c, attr)
        fs = [f for f in fs if f.kind in ("property", "cached_property", "normal")]
        if not fs:
            return "raw" if attr in RAW else "neutral"
        f = fs[0]
        st = "neutral"
        for n in ast.walk(f.node):
            if isinstance(n, ast.Return) and n.value is not None:
                s = self.expr_status(c, f, n.value)
                if s == "raw":
                    return "raw"
                if s == "canonical":
                    st = "canonical"
        if attr in RAW and st == "neutral":
            return "raw"
        return st

    def expr_status(self, c: ClassInfo, f: FunctionInfo, e: ast.AST) -> str:
        """raw if any order-dependent source reaches ``e`` unsanitised."""
        ab = abstractor(self.E.flow(f))
        a = ab.av(e)
        return self.av_status(c, a)

    def av_status(self, c: ClassInfo, a: AV) -> str:
        sanitised = any(r.startswith("idx<-") and SANITISER + "()" in r for r in a.roots)
        st = "neutral"
        for r in sorted(a.roots):
            if r.startswith(("idx<-", "arg<-", "cond<-")):
                base = r.split("<-")[-1]
                if r.startswith("idx<-"):
                    continue
            else:
                base = r
            parts = base.split(".")
            if len(parts) < 2 or parts[0] not in ("self", "other", "register_layout", "layout"):
                continue
            attr = parts[1].replace("()", "")
            s = self.attr_status(c, attr)
            if s == "raw":
                if not sanitised:
                    return "raw"
                st = "canonical"
            elif s == "canonical":
                st = "canonical"
        return st


def run(E: Engine, rep: Report, tier: str) -> dict:
    P = E.P
    T = Taint(E)
    cc = P.cls(CC)
    fam = T.family
    layout = P.cls("pulser.register.register_layout.RegisterLayout")
    wm = P.cls("pulser.register.weight_maps.WeightMap")
    traps = P.cls("pulser.register.traps.Traps")

    # ------------------------------------------------- derived statuses
    derived = {}
    for c in (layout, wm):
        for attr in ("sorted_coords", "_sorted_coords", "coords", "traps_dict", "_coords_to_traps", "sorted_weights", "trap_coordinates", "weights", "_coords_arr", "_rounded_coords", "_coords"):
            if attr in ("sorted_weights", "weights", "trap_coordinates") and c is layout:
                continue
            if attr == "coords" and c is wm:
                continue
            derived[f"{c.name}.{attr}"] = T.attr_status(c, attr)
    for name in ("sorted_coords", "_sorted_coords", "coords", "traps_dict", "_coords_to_traps"):
        st = derived.get(f"RegisterLayout.{name}")
        rep.check(st == "canonical", "TAINT", f"RegisterLayout.{name}|canonical", "derived status: canonical (raw coordinates only reach it indexed by _calc_sorting_order())", f"RegisterLayout.{name} no longer derives from the sorted coordinates (derived status: {st}): trap numbering would depend on the order the coordinates were given", E.where_mod(layout.module.relpath, layout.node))
    st = derived.get("WeightMap.sorted_weights")
    rep.check(st == "canonical", "TAINT", "WeightMap.sorted_weights|canonical", "weights are permuted with the same sorting order as the coordinates", f"WeightMap.sorted_weights is not the weights indexed by _calc_sorting_order() (derived status: {st})", E.where_mod(wm.module.relpath, wm.node))
    for name in ("_coords_arr", "_rounded_coords", "trap_coordinates", "weights"):
        st = derived.get(f"WeightMap.{name}")
        rep.check(st == "raw", "TAINT", f"WeightMap.{name}|raw-source", "order-dependent source (as given)", f"taint model lost the raw source {name} (status {st})", E.where_mod(wm.module.relpath, wm.node))

    # -------------------------------------------------------------- sinks
    n_sinks = 0
    for c in fam:
        for f in c.methods.get("_hash_object", []):
            ab = abstractor(E.flow(f))
            for n in ast.walk(f.node):
                if isinstance(n, ast.Call) and ((dotted(n.func) or "").endswith("sha256") or (isinstance(n.func, ast.Attribute) and n.func.attr == "update")):
                    for a in n.args:
                        n_sinks += 1
                        st = T.av_status(c, ab.av(a))
                        rep.check(st != "raw", "TAINT", f"{c.name}._hash_object|{norm(a)[:40]}", f"hash input is {st}", f"order-dependent value `{norm(a)}` reaches the hash unsorted: equality and static_hash would depend on the order of the coordinates", E.where(f, n))
    from .. import sym as _symT
    from .symutil import S as _ST, is_ as _isT, sh as _shT, unobj as _unT

    eq = P.lookup_method(traps, "__eq__")
    ok = False

    def _canon_hash(t, who):
        return t in (_symT.Pattern(f"{who}._safe_hash()").term, _symT.Pattern(f"{who}._hash_object.digest()").term)

    for f in eq:
        r_ = _ST(E, f).ret
        for t in _symT.subterms(r_) if r_ is not None else []:
            if t[0] == "cmp" and t[1] == "Eq" and ((_canon_hash(t[2], "self") and _canon_hash(t[3], "other")) or (_canon_hash(t[3], "self") and _canon_hash(t[2], "other"))):
                ok = True
    rep.check(ok, "TAINT", "Traps.__eq__|compares-canonical-hash", "equality compares the canonical hashes", "Traps.__eq__ no longer compares _safe_hash() of both sides", E.where(eq[0]) if eq else "")
    # __hash__ agrees with __eq__: every __hash__ of a Traps subclass is a function of the canonical hash only
    # (equal objects must hash equal; a label such as the slug or the repr is not part of the equality)
    n_hash = 0
    for c in [traps] + P.subclasses(traps):
        for f in c.methods.get("__hash__", []):
            n_hash += 1
            r_ = _unT(_ST(E, f).ret)
            ok_h = r_ is not None and r_[0] == "call" and r_[1] == ("name", "hash") and len(r_[2]) == 1 and (_canon_hash(r_[2][0], "self") or _isT(r_[2][0], "self.static_hash()") is not None)
            rep.check(ok_h, "TAINT", f"{c.name}.__hash__|hash-of-canonical-hash", "hash(self._safe_hash())", f"{c.name}.__hash__ returns `{_shT(r_, 80)}`, not a function of the canonical hash alone: two objects that compare equal (same trap set) can now hash differently (e.g. one with a slug, one without), so sets / dict keys / the hash of a frozen Device treat equal layouts as different", E.where(f))
    if n_hash < 1:
        raise AnalysisError("anchor: no __hash__ found on Traps or its subclasses")
    sinks = [
        (traps, "traps_dict", None),
        (traps, "_coords_to_traps", None),
        (layout, "define_register", "coords"),
        (layout, "define_detuning_map", None),
        (layout, "_to_abstract_repr", None),
        (wm, "_to_abstract_repr", None),
        (wm, "get_qubit_weight_map", None),
    ]
    for c, mname, _x in sinks:
        fs = P.lookup_method(c, mname)
        if not fs:
            raise AnalysisError(f"anchor: {c.name}.{mname} not found")
        f = fs[0]
        ab = abstractor(E.flow(f))
        used_raw = []
        used_can = []
        for n in ast.walk(f.node):
            if isinstance(n, ast.Attribute) and isinstance(n.value, ast.Name) and n.value.id == "self":
                s = T.attr_status(c if c is not traps else layout, n.attr)
                if s == "raw":
                    # sanitised right here?
                    par_ok = False
                    for m in ast.walk(f.node):
                        if isinstance(m, ast.Subscript) and any(x is n for x in ast.walk(m.value)) and SANITISER in repr(sorted(ab.av(m.slice).roots)):
                            par_ok = True
                    if not par_ok:
                        used_raw.append(n.attr)
                elif s == "canonical":
                    used_can.append(n.attr)
        n_sinks += 1
        rep.check(not used_raw and bool(used_can), "TAINT", f"{c.name}.{mname}|uses-canonical-order", f"uses {sorted(set(used_can))}", f"{c.name}.{mname} uses order-dependent attribute(s) {sorted(set(used_raw))} where trap IDs / canonical order are required", E.where(f))
    # BaseRegister._validate_layout indexes the layout's canonical coords with the trap id
    vl = E.fn("pulser.register.base_register.BaseRegister._validate_layout")
    ok = False
    for l in _ST(E, vl).logged("raise"):
        # a register coordinate mismatches its trap as soon as ANY component differs (np.any / any / not all-equal)
        for pat_ in ("np.any(Q_l.coords[Q_t] != Q_c)", "np.any(Q_l.sorted_coords[Q_t] != Q_c)", "not np.all(Q_l.coords[Q_t] == Q_c)", "not np.all(Q_l.sorted_coords[Q_t] == Q_c)",
                     "not np.array_equal(Q_l.coords[Q_t], Q_c)", "not np.array_equal(Q_l.sorted_coords[Q_t], Q_c)", "(Q_l.coords[Q_t] != Q_c).any()", "(Q_l.sorted_coords[Q_t] != Q_c).any()"):
            for m_ in _symT.find_all(l.cond, _symT.Pattern(pat_)):
                lay_ok = _unT(m_["Q_l"]) == ("name", "register_layout")
                t_, c_ = m_["Q_t"], m_["Q_c"]
                # the trap id and the coordinate compared are the two items of one zip(<own coordinates>, trap_ids) element
                paired = t_[0] == "item" and c_[0] == "item" and t_[1] == c_[1] and _symT.contains(t_[1], ("name", "trap_ids"))
                ok = ok or (lay_ok and paired)
    rep.check(ok, "TAINT", "BaseRegister._validate_layout|layout.coords[trap_id]", "register coordinates are compared with the layout's canonical coordinate of the claimed trap id", "_validate_layout no longer compares each of its coordinates with the layout's sorted coordinate at the claimed trap id", E.where(vl))
    # get_traps_from_coordinates looks up the rounded coordinate in _coords_to_traps
    gt = P.lookup_method(traps, "get_traps_from_coordinates")[0]
    Sgt = _ST(E, gt)
    keys_ = [m_["Q_k"] for top in [Sgt.ret] + [l.value for l in Sgt.log if l.value is not None] if top is not None for pat_k in ("self._coords_to_traps[Q_k]", "self._coords_to_traps.get(Q_k)") for m_ in _symT.find_all(top, _symT.Pattern(pat_k))]

    def _rounded(k_):
        for t in _symT.subterms(k_):
            if t[0] == "call" and (t[1][1] if t[1][0] == "name" else t[1][2] if t[1][0] == "attr" else "") in ("round", "round_", "around"):
                dec = dict(t[3]).get("decimals") or (t[2][1] if len(t[2]) > 1 else None)
                if dec == ("name", "COORD_PRECISION"):
                    return True
        return False

    # ... and a coordinate is refused iff it is not a key: trap ID 0 is a valid (falsy) value, so the rejection may not
    # take the truth value of the looked-up ID
    for l in Sgt.logged("raise"):
        for x in _symT.conj_of(l.cond):
            y = x[1] if x[0] == "not" else x
            if _isT(y, "self._coords_to_traps.get(Q_k)") is not None or _isT(y, "self._coords_to_traps.get(Q_k, Q_d)") is not None:
                rep.violation("TAINT", "Traps.get_traps_from_coordinates|absent-key-not-falsy-id", f"get_traps_from_coordinates rejects a coordinate under `{_shT(x, 80)}`, the truth value of the looked-up trap ID: trap 0 (a valid ID) is reported as not part of the layout", E.where(gt, l.node))
    rep.check(bool(keys_) and all(_rounded(k_) for k_ in keys_), "TAINT", "Traps.get_traps_from_coordinates|rounded-key-lookup", "looks the coordinate up after rounding to COORD_PRECISION", f"coordinate lookup is not keyed by the COORD_PRECISION-rounded coordinate ({[_shT(k_, 80) for k_ in keys_][:2]})", E.where(gt))
    rep.floor("TAINT", 18)

    # ---------------------------------------------------------------- SIB
    for fname in ("get_qubit_weight_map", "_to_abstract_repr", "_to_dict", "_hash_object"):
        fs = P.lookup_method(wm, fname)
        if not fs:
            continue
        f = fs[0]
        coord_st = set()
        weight_st = set()
        for n in ast.walk(f.node):
            if isinstance(n, ast.Attribute) and isinstance(n.value, ast.Name) and n.value.id == "self":
                if n.attr in ("sorted_coords", "_sorted_coords", "trap_coordinates", "_coords_arr", "_coords", "_rounded_coords"):
                    coord_st.add(T.attr_status(wm, n.attr))
                if n.attr in ("sorted_weights", "weights"):
                    weight_st.add(T.attr_status(wm, n.attr))
        if fname == "_hash_object":
            coord_st.add("canonical")  # super()._hash_object hashes sorted_coords (checked above)
        if coord_st and weight_st:
            rep.check(coord_st == weight_st and len(coord_st) == 1, "SIB", f"WeightMap.{fname}|coords-weights-same-order", f"coordinates and weights both {sorted(coord_st)}", f"WeightMap.{fname} pairs {sorted(coord_st)} coordinates with {sorted(weight_st)} weights: weights would be attributed to the wrong traps", E.where(f))
    rep.floor("SIB", 3)

    # -------------------------------------------------------------- TABLE
    cs = P.lookup_method(cc, SANITISER)[0]
    from .. import sym as _sym0
    from .symutil import S as _S0, is_ as _is0, unobj as _unobj0, sh as _sh0

    ok_rev = False
    lex = _S0(E, cs).calls("lexsort")
    ok_lex = bool(lex)
    for l in lex:
        a0 = _unobj0(l.value[2][0]) if l.value[2] else None
        while a0 is not None and a0[0] == "call" and a0[1] in (("name", "tuple"), ("name", "list")) and len(a0[2]) == 1:
            a0 = _unobj0(a0[2][0])
        if a0 is not None and a0[0] == "comp" and len(a0[3]) == 1:
            it = _unobj0(a0[3][0][0])
            rev_iter = any(_is0(it, p_) is not None for p_ in ("range(Q_d - 1, -1, -1)", "reversed(range(Q_d))", "range(Q_d)[::-1]", "reversed(list(range(Q_d)))"))
            col = _is0(a0[2], "Q_a[:, Q_i]")
            ok_rev = rev_iter and col is not None and col["Q_i"] == ("elem", a0[3][0][0], 0)
        elif a0 is not None and (_is0(a0, "Q_a[:, ::-1].T") is not None or _is0(a0, "Q_a.T[::-1]") is not None):
            ok_rev = True
    rep.check(ok_rev and ok_lex, "TABLE", "CoordsCollection._calc_sorting_order|x-primary-lexsort", "lexsort keys are the dimensions in reversed order (last key = x is primary)", "the sorting order is no longer 'ascending x, then y, then z' (lexsort over reversed dimensions)", E.where(cs))
    abc_ = abstractor(E.flow(cs))
    for n in ast.walk(cs.node):
        if isinstance(n, ast.Call) and (dotted(n.func) or "").endswith("lexsort"):
            a = abc_.av(n.args[0])
            by_av = any("_rounded_coords" in r for r in a.roots)
            if not by_av:
                # the key list may be filled by a loop of appends: the normal form keeps what was appended
                from .symutil import mentions as _ment19

                by_av = any(_ment19(l_.value, "_rounded_coords") for l_ in _S0(E, cs).calls("lexsort")) or any(l_.kind == "call" and l_.target is not None and l_.target[0] == "attr" and l_.target[2] == "append" and _ment19(l_.value, "_rounded_coords") for l_ in _S0(E, cs).log)
            rep.check(by_av, "TABLE", "CoordsCollection._calc_sorting_order|sorts-rounded-coords", "sorting is computed on the rounded coordinates", f"sorting is computed on {a.show()[:120]} instead of the rounded coordinates", E.where(cs, n))
    n_round = 0
    for f in P.all_functions():
        if not f.module.name.startswith("pulser.register.") or f.module.name.endswith(("_reg_drawer", "_patterns", "_layout_gen")):
            continue
        for n in ast.walk(f.node):
            if isinstance(n, ast.Call) and (dotted(n.func) or "").split(".")[-1] in ("round", "around", "round_") and ((dotted(n.func) or "").startswith(("np.", "pm.", "numpy."))):
                dec = next((k.value for k in n.keywords if k.arg == "decimals"), n.args[1] if len(n.args) > 1 else None)
                n_round += 1
                rep.check(dec is not None and norm(dec) == "COORD_PRECISION", "TABLE", f"{f.short}|round-uses-COORD_PRECISION", "coordinate rounding uses the shared precision constant", f"`{norm(n)[:80]}` rounds with {norm(dec) if dec is not None else 'the default'} instead of COORD_PRECISION", E.where(f, n))
    gq = P.lookup_method(wm, "get_qubit_weight_map")[0]
    from .symutil import S as _S, is_ as _is

    # a qubit is on a trap iff it ROUNDS to the trap's coordinates (traps are identified by coordinates rounded to
    # COORD_PRECISION -- get_traps_from_coordinates does the same): matching "within a tolerance" and summing the weights
    # of every match merges neighbouring grid points and gives a qubit next to a trap that trap's weight
    Sgq = _S(E, gq)
    close_calls = Sgq.calls("isclose") + Sgq.calls("allclose")
    rounded_eq = False
    for l in Sgq.log:
        for v_ in (l.value, l.cond):
            for t in _symT.subterms(v_) if v_ is not None else ():
                if t[0] == "cmp" and t[1] == "Eq" and any(u[0] == "call" and (u[1][1] if u[1][0] == "name" else u[1][2] if u[1][0] == "attr" else "") in ("round", "around", "round_") and (dict(u[3]).get("decimals") == ("name", "COORD_PRECISION") or (len(u[2]) > 1 and u[2][1] == ("name", "COORD_PRECISION"))) for u in _symT.subterms(t)):
                    rounded_eq = True
    # ... rounded as a float64 value, like the trap coordinates: np.round keeps a float32 input float32, and
    #     float32(2.3) rounded is not equal to the float64 2.3 of the trap
    def _is_round(u):
        return u[0] == "call" and (u[1][1] if u[1][0] == "name" else u[1][2] if u[1][0] == "attr" else "") in ("round", "around", "round_")

    def _float_conv(t_):
        fl = (("name", "float"), ("attr", ("name", "np"), "float64"), ("const", "float64"), ("const", "float"))
        return any(x[0] == "call" and (dict(x[3]).get("dtype") in fl or (x[1][0] == "attr" and x[1][2] == "astype" and x[2] and x[2][0] in fl) or (x[1][0] == "attr" and x[1][2] in ("array", "asarray", "asanyarray", "AbstractArray", "asfarray") and (len(x[2]) > 1 and x[2][1] in fl or x[1][2] == "asfarray")) or x[1] == ("name", "float")) for x in _symT.subterms(t_))

    _seen_u: set = set()
    for l in Sgq.log:
        for v_ in (l.value, l.cond):
            for t in _symT.subterms(v_) if v_ is not None else ():
                if t[0] == "cmp" and t[1] == "Eq":
                    for u in [u for u in _symT.subterms(t) if _is_round(u) and u[2] and u not in _seen_u]:
                        _seen_u.add(u)
                        rep.check(_float_conv(u[2][0]), "TABLE", "WeightMap.get_qubit_weight_map|position-rounded-as-float64", "the position is converted with dtype=float before rounding", f"the qubit position is rounded as `{_symT.show(u)[:100]}` in the dtype it was given in: np.round keeps float32, and a float32 coordinate (2.3 -> 2.29999995...) rounded in float32 is not equal to the trap's float64 coordinate, so a qubit placed on a trap gets weight 0", E.where(gq, l.node))
    rep.check(rounded_eq and not close_calls, "TABLE", "WeightMap.get_qubit_weight_map|qubit-matched-by-rounded-equality", "sorted_coords == round(position, COORD_PRECISION), no isclose", "get_qubit_weight_map matches a qubit to every trap within a tolerance (np.isclose) and adds their weights: with numpy's default rtol the radius grows with the coordinate, and even with rtol=0 two traps one grid step (1e-6) apart both match and a qubit next to a trap gets that trap's weight", E.where(gq))
    rep.ok("TABLE", "WeightMap.get_qubit_weight_map|tolerance-uses-COORD_PRECISION", "the rounding uses COORD_PRECISION (see qubit-matched-by-rounded-equality)", E.where(gq))
    # -0.0 == 0.0 but their bytes differ, and __eq__ / the hash are taken over the bytes of the sorted coordinates: the
    # rounded coordinates are normalised (`+ 0.0`) so that equal coordinates have one byte representation
    rc_f = P.lookup_method(P.cls("pulser.register._coordinates.CoordsCollection"), "_rounded_coords")[0]
    # (the normal form simplifies `x + 0.0` to `x`: this one is read off the syntax tree)
    def _is_zero(o_):
        if isinstance(o_, ast.Constant):
            return isinstance(o_.value, (int, float)) and not isinstance(o_.value, bool) and o_.value == 0
        if isinstance(o_, ast.Name):  # a module-level constant
            v_ = rc_f.module.assigns.get(o_.id)
            return isinstance(v_, ast.Constant) and isinstance(v_.value, (int, float)) and not isinstance(v_.value, bool) and v_.value == 0
        return False

    norm0 = any(isinstance(n_, ast.BinOp) and isinstance(n_.op, ast.Add) and (_is_zero(n_.left) or _is_zero(n_.right)) for n_ in ast.walk(rc_f.node))
    norm0 = norm0 or any(isinstance(n_, ast.Call) and (dotted(n_.func) or "").split(".")[-1] in ("where", "copysign") for n_ in ast.walk(rc_f.node))
    # ... applied to the ROUNDED values: the rounding is what produces most negative zeros (-3e-9 rounds to -0.0), so
    #     `round(x + 0.0)` normalises nothing
    def _has_round(o_):
        if isinstance(o_, ast.Name):
            defs_ = [x_ for x_ in ast.walk(rc_f.node) if isinstance(x_, ast.Assign) and len(x_.targets) == 1 and isinstance(x_.targets[0], ast.Name) and x_.targets[0].id == o_.id]
            return len(defs_) == 1 and _has_round(defs_[0].value)
        return any(isinstance(c_, ast.Call) and (dotted(c_.func) or "").split(".")[-1] in ("round", "around", "round_") for c_ in ast.walk(o_))

    adds0 = [n_ for n_ in ast.walk(rc_f.node) if isinstance(n_, ast.BinOp) and isinstance(n_.op, ast.Add) and (_is_zero(n_.left) or _is_zero(n_.right))]
    if adds0:
        after = any(_has_round(n_.right if _is_zero(n_.left) else n_.left) for n_ in adds0)
        rep.check(after, "TABLE", "CoordsCollection._rounded_coords|negative-zero-normalised-after-rounding", "round(...) + 0.0: the operand of `+ 0.0` is the rounded array", "the `+ 0.0` that removes negative zeros is applied BEFORE the rounding: rounding a value in (-5e-7, 0) produces -0.0 afterwards, which reaches the sorted coordinates and the hashed bytes -- two layouts with the same rounded coordinate set compare unequal and hash differently", E.where(rc_f, adds0[0]))
    rep.check(norm0, "TABLE", "CoordsCollection._rounded_coords|negative-zero-normalised", "round(...) + 0.0", "the rounded coordinates keep IEEE negative zeros (given directly, or produced by rounding a value in (-5e-7, 0)): -0.0 == 0.0 but the bytes differ, so two layouts / detuning maps with the same trap set compare unequal and hash differently", E.where(rc_f))
    # the traps own their coordinates: Traps.__init__ stores a fresh float array, not the caller's object (read lazily,
    # it would follow later edits of the caller's array and inherit its dtype, e.g. float32 roundings)
    ti_f = P.lookup_method(traps, "__init__")[0]
    st_c = [l for l in _S(E, ti_f).calls("__setattr__") if len(l.value[2]) >= 3 and l.value[2][1] == ("const", "_coords")]
    if not st_c:
        raise AnalysisError("anchor: Traps.__init__ no longer stores _coords")
    for l in st_c:
        v_ = _unT(l.value[2][2])
        rep.check(v_ != ("name", "trap_coordinates"), "ALIAS", "Traps.__init__|stores-its-own-coordinates", "a converted copy is stored, not the parameter itself", "Traps.__init__ validates a float64 conversion of the coordinates but stores the caller's own object: read lazily, it follows later edits of the caller's array (A = RegisterLayout(c); c += 10; A now reports the moved traps) and keeps the caller's dtype (float32 coordinates are not multiples of 1e-6, so the layout's own coordinates are 'not part of the RegisterLayout')", E.where(ti_f, l.node))
        # ... as FLOAT64: rounding to COORD_PRECISION happens in the dtype of the stored array, and float32 coordinates
        #     rounded in float32 are off the 1e-6 grid (0.3 -> 0.30000001192...), so the layout is unequal to its float64
        #     twin and cannot look its own coordinates up
        rep.check(_float_conv(l.value[2][2]), "ALIAS", "Traps.__init__|coordinates-stored-as-float64", "the stored array is converted with dtype=float", f"Traps.__init__ stores `{_symT.show(v_)[:100]}` without a float64 conversion: float32 trap coordinates are rounded in float32, which leaves the 1e-6 grid, so equality, hash, coordinate lookup and detuning-map weights differ from the same traps given as float64", E.where(ti_f, l.node))
    # every rounding of coordinates to the trap grid is numpy's: the builtin round() is correctly rounded on the decimal
    # value while np.round scales, rounds and rescales -- they disagree on about 5 % of the half-way 7-decimal values
    # (2.5000005 -> 2.5 with np.round, 2.500001 with round()), so a lookup rounding differently from the layout fails
    n_br = 0
    for f in P.all_functions():
        if not f.module.name.startswith("pulser.register.") or f.module.name.endswith(("_reg_drawer", "_patterns", "_layout_gen")):
            continue
        for n in ast.walk(f.node):
            if isinstance(n, ast.Call) and isinstance(n.func, ast.Name) and n.func.id == "round" and len(n.args) == 2 and norm(n.args[1]) == "COORD_PRECISION":
                n_br += 1
                rep.violation("TABLE", f"{f.short}|grid-rounding-is-numpy's", f"`{norm(n)[:80]}` rounds a coordinate to the trap grid with the builtin round(): the layout's own coordinates are rounded with np.round, and the two disagree on half-way values (2.5000005, 3.0000005, 4.3301275), so a coordinate of the layout is 'not part of the RegisterLayout' or resolves to the neighbouring trap", E.where(f, n))
    if n_br == 0:
        rep.ok("TABLE", "register package|grid-rounding-is-numpy's", "no builtin round(x, COORD_PRECISION) in the register package", "pulser-core/pulser/register")
    # `itemgetter(*keys)(mapping)` returns a bare item (not a 1-tuple) for a single key: coordinates collected that way
    # are a 1-D array for a one-trap detuning map
    ig_sites = []
    for cq_, mn_ in (("pulser.register.register_layout.RegisterLayout", "define_detuning_map"), ("pulser.register.mappable_reg.MappableRegister", "define_detuning_map")):
        for f_ in P.lookup_method(P.cls(cq_), mn_):
            for n_ in ast.walk(f_.node):
                if isinstance(n_, ast.Call) and isinstance(n_.func, ast.Call) and (dotted(n_.func.func) or "").split(".")[-1] == "itemgetter" and any(isinstance(a_, ast.Starred) for a_ in n_.func.args):
                    ig_sites.append((f_, n_))
    if ig_sites:
        rep.violation("TABLE", "RegisterLayout.define_detuning_map|single-trap", f"{ig_sites[0][0].short} collects the trap coordinates with `itemgetter(*keys)(...)`: for a single key itemgetter returns the bare coordinate array instead of a 1-tuple, so a one-trap detuning map raises \"'trap_coordinates' must be an array or list of coordinates\"", E.where(ig_sites[0][0], ig_sites[0][1]))
    else:
        rep.ok("TABLE", "RegisterLayout.define_detuning_map|single-trap", "no itemgetter(*keys) collection of coordinates", E.where(gq))
    rep.floor("TABLE", 6)

    # --------------------------------------------------------------- FLOW
    init = P.lookup_method(traps, "__init__")[0]
    ab = abstractor(E.flow(init))
    found = False
    for n in ast.walk(init.node):
        if isinstance(n, ast.Call) and (dotted(n.func) or "").endswith("unique") and n.args:
            found = True
            a = ab.av(n.args[0])
            ok = any(t.startswith("round:") and "COORD_PRECISION" in t for t in a.tags)
            rep.check(ok, "FLOW", "Traps.__init__|uniqueness-on-rounded-coordinates", "uniqueness is decided on coordinates rounded to COORD_PRECISION, the same representation that identifies a trap",
                      f"uniqueness of trap coordinates is decided on unrounded values ({a.show()[:120]}) while trap identity (_coords_to_traps, get_traps_from_coordinates) uses coordinates rounded to COORD_PRECISION: two traps closer than the precision are both accepted and share one identity", E.where(init, n))
    if not found:
        raise AnalysisError("anchor: Traps.__init__ uniqueness check (np.unique) not found")
    rep.floor("FLOW", 1)

    # ---------------------------------------------------------------- MAP
    from .. import sym as _sym
    from .symutil import S as _S, sh as _sh, mentions as _mentions, unobj as _unobj, has as _has

    br = E.fn("pulser.register.mappable_reg.MappableRegister.build_register")
    dcalls = _S(E, br).calls("define_register")
    ok_order = ok_via = bool(dcalls)
    why = "no call of layout.define_register"
    declared = (_sym.Pattern("self._qubit_ids").term, _sym.Pattern("self.qubit_ids").term)
    for l in dcalls:
        c = l.value
        kws = dict(c[3])
        ids = kws.get("qubit_ids")
        traps = c[2][0][1] if len(c[2]) == 1 and c[2][0][0] == "star" else None

        def comp_of(t):
            t = _unobj(t) if t is not None else None
            while t is not None and t[0] == "call" and t[1] in (("name", "tuple"), ("name", "list")) and len(t[2]) == 1:
                t = _unobj(t[2][0])
            return t if t is not None and t[0] == "comp" and len(t[3]) == 1 else None

        ci, ct = comp_of(ids), comp_of(traps)
        if ci is None or ct is None:
            ok_via = False
            why = f"define_register is called as `{_sh(c, 160)}`: trap ids and qubit_ids are not both selections of the declared ids"
            continue
        it_i, it_t = ci[3][0][0], ct[3][0][0]
        el_i, el_t = ("elem", it_i, 0), ("elem", it_t, 0)
        if not (it_i in declared and it_t in declared and ci[3][0][1] == ct[3][0][1]):
            ok_order = False
            why = f"the selections iterate `{_sh(it_t, 40)}` / `{_sh(it_i, 40)}` (filters `{_sh(ct[3][0][1], 60)}` / `{_sh(ci[3][0][1], 60)}`), not the declared qubit ids with one common filter"
        if not (ci[2] == el_i and ct[2][0] == "idx" and ct[2][1] == ("name", "qubits") and ct[2][2] == el_t):
            ok_via = False
            why = f"qubit_ids element `{_sh(ci[2], 40)}` / trap element `{_sh(ct[2], 40)}`: each chosen id must be paired with qubits[id]"
    rep.check(ok_order, "MAP", "MappableRegister.build_register|declared-order", "the built register lists the chosen qubits in declared order", f"build_register no longer orders the qubits by the declared qubit ids: {why}", E.where(br))
    rep.check(ok_via, "MAP", "MappableRegister.build_register|via-define_register", "traps resolved through layout.define_register (canonical trap ids), each id paired with its mapped trap", f"build_register: {why}", E.where(br))
    cq = E.method("pulser.sequence.sequence.Sequence", "_check_qubits_give_ids")
    rq = _S(E, cq).ret
    hits = [m_ for m_ in (_sym.find_all(rq, _sym.Pattern("self._register.qubit_ids[int(Q_i)]")) if rq is not None else [])]
    ok_idx = any(m_["Q_i"][0] == "elem" and _unobj(m_["Q_i"][1]) == ("name", "qubits") for m_ in hits)
    rep.check(ok_idx, "MAP", "Sequence._check_qubits_give_ids|index-against-declared-order", "index-based targeting resolves against the register's qubit order", "index-based targeting no longer indexes register.qubit_ids with each given index", E.where(cq))
    rep.floor("MAP", 3)
    # trap ids index the canonical coordinate array: every id must be validated on *both* sides before
    # (a negative id wraps around in numpy, so an upper-bound-only test accepts ids that are not trap ids)
    dr = E.method("pulser.register.register_layout.RegisterLayout", "define_register")
    rets = [l for l in _S(E, dr).logged("return") if l.value is not None]
    if not rets:
        raise AnalysisError("anchor: RegisterLayout.define_register has no return")
    for i_, l in enumerate(rets):
        lits = _sym.conj_of(l.cond)
        member = [x for x in lits if x[0] != "not" and (_mentions(x, "traps_dict") or _mentions(x, "range")) and _mentions(x, "trap_ids")]
        ordering = [c for x in lits for c in _sym.subterms(x) if c[0] == "cmp" and c[1] in ("Lt", "LtE", "Gt", "GtE") and (_mentions(x, "trap_ids"))]
        upper = [c for c in ordering if _mentions(c, "number_of_traps") or _mentions(c, "len")]
        lower = [c for c in ordering if ("const", 0) in (c[2], c[3]) or ("const", -1) in (c[2], c[3])]
        ok = bool(member) or (bool(upper) and bool(lower))
        why = "membership in the layout's trap ids" if member else "two-sided range test" if ok else ""
        rep.check(ok, "MAP", f"RegisterLayout.define_register|trap-ids-validated-on-both-sides|return{i_}", f"the register is built only after {why}",
                  f"define_register builds the register under `{_sh(l.cond, 160)}`: " + ("the ids are only bounded from above -- a negative id passes and wraps around in the coordinate array (the register then sits on a trap whose id it does not carry)" if upper else "no validation of the trap ids against the layout's ids remains on this path"), E.where(dr, l.node))
    rep.floor("MAP", 4)
    # ALIAS: the canonical coordinate arrays are cached on (frozen) objects; a public accessor that returns such an
    # array itself -- through view-preserving wrappers only -- hands out a mutable reference to the storage that
    # decides trap numbering, equality and hash
    from .symutil import unobj as _unobj

    def _view_root(t):
        while True:
            t = _unobj(t)
            if t[0] == "call" and t[1][0] == "attr" and t[1][2] in ("as_array", "view", "reshape", "squeeze", "ravel", "transpose"):
                t = t[1][1]
                continue
            if t[0] == "call" and t[1][0] == "attr" and t[1][1] in (("name", "np"), ("name", "numpy")) and t[1][2] in ("asarray", "asanyarray", "atleast_2d") and t[2]:
                t = t[2][0]
                continue
            if t[0] == "attr" and t[2] == "T":
                t = t[1]
                continue
            return t

    storage: set = set()
    reg_classes = [c for c in P.classes.values() if c.module.name.startswith("pulser.register")]
    for c in reg_classes:
        for nm_, fs_ in c.methods.items():
            for f_ in fs_:
                if f_.kind == "cached_property" and nm_.startswith("_") and f_.node.returns is not None and any(k in norm(f_.node.returns) for k in ("AbstractArray", "ndarray")):
                    storage.add(nm_)
    if not {"_sorted_coords", "_coords_arr"} <= storage:
        raise AnalysisError(f"anchor: cached coordinate arrays not found (got {sorted(storage)})")
    n_alias = 0
    for c in reg_classes:
        for nm_, fs_ in c.methods.items():
            if nm_.startswith("_"):
                continue
            for f_ in fs_:
                if f_.kind in ("overload", "setter"):
                    continue
                for l in _S(E, f_, inline=False).logged("return"):
                    if l.value is None or not any(t[0] == "attr" and t[1] == ("name", "self") and t[2] in storage for t in _sym.subterms(l.value)):
                        continue
                    n_alias += 1
                    root = _view_root(l.value)
                    aliased = root[0] == "attr" and root[1] == ("name", "self") and root[2] in storage
                    rep.check(not aliased, "ALIAS", f"{f_.short}|returns-no-reference-to-cached-coordinates", "the returned array is a copy / a new array, not the cached storage",
                              f"{f_.short} returns `{_sh(l.value, 80)}`, i.e. the cached array `self.{root[2] if aliased else '?'}` itself (as_array/asarray do not copy): editing the result in place changes the object's canonical coordinates, and with them trap numbering, ==, hash and weights", E.where(f_, l.node))
    rep.floor("ALIAS", 3)
    # DTYPE: equality and hash are taken over the *bytes* of the canonical arrays, so their dtype is pinned: the same
    # points given as ints and as floats (or integer weights 0/1 and 0.0/1.0) are one layout / one map
    def _pinned(t):
        for x in _sym.subterms(t):
            if x[0] == "call" and x[1][0] == "attr" and x[1][2] == "astype" and x[2] and x[2][0] == ("name", "float") and dict(x[3]).get("copy") != ("const", False):
                return True
            if x[0] == "call" and dict(x[3]).get("dtype") == ("name", "float"):
                return True
        return False

    for cq, pn in (("pulser.register._coordinates.CoordsCollection", "sorted_coords"), ("pulser.register.weight_maps.WeightMap", "sorted_weights")):
        fs_ = [f_ for f_ in E.cls(cq).methods.get(pn, []) if f_.kind in ("property", "cached_property")]
        if not fs_:
            raise AnalysisError(f"anchor: {cq}.{pn} not found")
        r_ = _S(E, fs_[0], inline=False).ret
        rep.check(r_ is not None and _pinned(r_), "DTYPE", f"{cq.split('.')[-1]}.{pn}|float-dtype-pinned", "the canonical array is converted to float (astype(float) / dtype=float)", f"{cq.split('.')[-1]}.{pn} returns `{_sh(r_, 80)}` with whatever dtype the caller's data had: its bytes feed __eq__ and the hash, so the same coordinates (weights) given as ints and as floats make two different layouts (maps)", E.where(fs_[0]))
    rep.floor("DTYPE", 2)
    return {"derived_statuses": derived, "sinks": n_sinks, "roundings": n_round}
