"""C05 finding 1: drives of several channels on one basis get their phases added.

Two Global Rydberg channels on the same (ground-rydberg) basis. Channel "a"
plays a pulse with phase pi/2 in [0, 100) and channel "b" then plays a pulse
with phase 0 in [100, 200). The documented Hamiltonian at t=150 ns is
Omega/2 (|g><r| + |r><g|) (phase 0). The emulator uses phase pi/2 instead,
because SequenceSamples.to_nested_dict() adds up the *phase samples* of the
channels (and the phase of "a" is held after its pulse).

A second check overlaps two pulses of different phases (protocol="no-delay"):
the total drive must be the sum of the complex amplitudes.
"""
import sys

import numpy as np

from pulser import Pulse, Register, Sequence
from pulser.devices import MockDevice
from pulser_simulation import QutipEmulator

failures = []


def drive_element(seq, t):
    """<g|H(t)|r> for a single-atom ground-rydberg sequence."""
    sim = QutipEmulator.from_sequence(seq)
    ham = sim.get_hamiltonian(t)
    if not np.allclose(ham.full(), ham.dag().full()):
        failures.append(f"H({t}) is not Hermitian")
    g = sim.basis["g"]
    r = sim.basis["r"]
    return complex((g.dag() * ham * r))


reg = Register({"q0": (0.0, 0.0)})

# 1) Consecutive pulses on two channels of the same basis
seq = Sequence(reg, MockDevice)
seq.declare_channel("a", "rydberg_global")
seq.declare_channel("b", "rydberg_global")
seq.add(Pulse.ConstantPulse(100, 2.0, 0.0, np.pi / 2), "a")
seq.add(Pulse.ConstantPulse(100, 2.0, 0.0, 0.0), "b")  # starts at t=100
got = drive_element(seq, 150)
expected = 2.0 / 2 * np.exp(-1j * 0.0)
print(f"consecutive: <g|H(150)|r> = {got:.4f}, expected {expected:.4f}")
if not np.isclose(got, expected):
    failures.append("consecutive pulses: wrong phase for the pulse of 'b'")

# 2) Overlapping pulses on two channels of the same basis
seq = Sequence(reg, MockDevice)
seq.declare_channel("a", "rydberg_global")
seq.declare_channel("b", "rydberg_global")
seq.add(Pulse.ConstantPulse(100, 2.0, 0.0, np.pi / 2), "a")
seq.add(Pulse.ConstantPulse(100, 1.0, 0.0, np.pi), "b", protocol="no-delay")
got = drive_element(seq, 50)
expected = 2.0 / 2 * np.exp(-1j * np.pi / 2) + 1.0 / 2 * np.exp(-1j * np.pi)
print(f"overlapping: <g|H(50)|r> = {got:.4f}, expected {expected:.4f}")
if not np.isclose(got, expected):
    failures.append("overlapping pulses: drive is not the sum of the drives")

# 3) Same thing on a Local channel pair (goes through the 'Local' branch)
seq = Sequence(reg, MockDevice)
seq.declare_channel("a", "rydberg_local", initial_target="q0")
seq.declare_channel("b", "rydberg_local", initial_target="q0")
seq.add(Pulse.ConstantPulse(100, 2.0, 0.0, np.pi / 2), "a")
seq.add(Pulse.ConstantPulse(100, 1.0, 0.0, np.pi), "b", protocol="no-delay")
got = drive_element(seq, 50)
print(f"local overlap: <g|H(50)|r> = {got:.4f}, expected {expected:.4f}")
if not np.isclose(got, expected):
    failures.append("overlapping local pulses: drive is not the sum")

if failures:
    print("FAIL")
    for f in failures:
        print(" -", f)
    sys.exit(1)
print("PASS")
