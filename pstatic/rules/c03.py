"""C03 -- addressing-conflict protocols: no conflict, minimal delay, exact estimate, align."""
from __future__ import annotations

import ast

from ..absval import abstractor
from ..engine import CHS, SCHED, SEQ, Engine
from ..model import AnalysisError, dotted, norm
from ..report import Report
from .. import sym
from .common import must_pass
from .symutil import S, all_of, any_lit, arg, has, is_, mentions, sh, unobj

EXPLANATION = (
    "SIB: Sequence.estimate_added_delay and Sequence._add obtain the next slot from the same function (_Schedule.make_next_pulse_slot, directly resp. through add_pulse, which forwards its parameters unchanged) "
    "with pairwise identical argument provenance (validated pulse incl. phase reference, channel, phase barriers, protocol); the estimate returns slot.ti - last.tf and add_pulse inserts exactly that -- "
    "'predicted delay equals inserted delay' holds by construction. GUARD/TABLE: protocol literals used by the scheduler are members of PROTOCOLS; _find_add_delay is skipped iff protocol == 'no-delay'; "
    "the conflict test is `targets overlap or protocol == 'wait-for-all'`; the channel itself is skipped; every `break` of the backwards scan over another channel's slots is under `slot end + ramp-down <= start time` or the conflict test "
    "(a pulse still ramping down that does not conflict never ends the scan); _validate_add_protocol dominates both entry points. FLOW: every use of another channel's op.tf "
    "is op.tf + fall_time(...) for pulses and op.tf + 2*rise_time for non-pulses; the start time is max(t0, *phase barriers). ALIGN: the alignment target is the max over channels of the end "
    "(with fall time iff at_rest) and each channel is delayed by target - its *plain* end. NOT decided: minimality ('earliest instant') and numerical fall times."
    " Round 5 (added): the other channel's fall time is taken in the mode the examined slot was played in (`in_eom_mode(op)`); align iterates its common end to a fixed point every channel can reach with a valid delay; estimate_added_delay hands make_next_pulse_slot the inputs the add hands it (KNOWN finding: it cannot pass phase_drift_params)."
    ' Round 6 (added after the fifth independent round of breaking changes): the align iteration compares plain slot ends (the rest time is added once, after the loop); estimate_added_delay reads the block end through `is None`, not truthiness (ZERO net: tf).'
)
ASSUMPTIONS = ["sibling agreement is equality of the symbolic normal forms of the argument expressions (pstatic/sym.py): temporaries, private helpers and conditional forms do not matter", "state mutation between two reads of the same attribute path is not modelled by the normal form"]


def _param_index(f, name: str) -> int:
    ps = f.params[1:] if f.cls is not None else f.params
    return ps.index(name) if name in ps else -1


def run(E: Engine, rep: Report, tier: str) -> dict:
    add = E.method(SEQ, "_add")
    est = E.method(SEQ, "estimate_added_delay")
    ap = E.method(SCHED, "add_pulse")
    mn = E.method(SCHED, "make_next_pulse_slot")
    fad = E.method(SCHED, "_find_add_delay")
    vap = E.method(SEQ, "_validate_add_protocol")
    Sadd, Sest, Sap, Smn, Sfad = S(E, add), S(E, est), S(E, ap), S(E, mn), S(E, fad)

    # ---------------------------------------------------------------- SIB
    c_add = [l for l in Sadd.calls("add_pulse") if l.fn == add.short]
    c_est = [l for l in Sest.calls("make_next_pulse_slot") if l.fn == est.short]
    if not c_add or not c_est:
        raise AnalysisError(f"anchor: _add calls add_pulse {len(c_add)}x, estimate_added_delay calls make_next_pulse_slot {len(c_est)}x")
    ca, ce = c_add[-1], c_est[-1]
    for pn in ("pulse", "channel", "phase_barrier_ts", "protocol"):
        a1, a2 = arg(ca, _param_index(ap, pn), pn), arg(ce, _param_index(mn, pn), pn)
        if a1 is None or a2 is None:
            rep.violation("SIB", f"estimate-vs-add|{pn}", f"argument '{pn}' is not passed on one side (add: {sh(a1)}, estimate: {sh(a2)})", E.where(est, ce.node))
            continue
        rep.check(sym.renumber(a1) == sym.renumber(a2), "SIB", f"estimate-vs-add|{pn}", "same symbolic value on both sides", f"estimate_added_delay and _add compute '{pn}' differently: _add passes {sh(a1, 200)}, the estimate passes {sh(a2, 200)}", E.where(est, ce.node))
    # the validated pulse on both sides comes from _validate_and_adjust_pulse(pulse, channel, phase_ref)
    refs = {}
    for f, Sf in ((add, Sadd), (est, Sest)):
        cs = [l for l in Sf.calls("_validate_and_adjust_pulse") if l.fn == f.short]
        ref = arg(cs[-1], 2, "phase_ref") if cs else None
        refs[f.short] = ref
        rep.check(ref is not None and ref != sym.NONE and mentions(ref, "last_phase"), "SIB", f"{f.short}|validates-with-phase-ref", "_validate_and_adjust_pulse(pulse, channel, phase_ref) with the targets' common phase reference", f"{f.short} no longer passes the targets' phase reference to _validate_and_adjust_pulse (got {sh(ref)})", E.where(f))
    # add_pulse forwards its parameters unchanged
    fw = [l for l in Sap.calls("make_next_pulse_slot") if l.fn == ap.short]
    fw_ok = bool(fw)
    for pn in ("pulse", "channel", "phase_barrier_ts", "protocol", "phase_drift_params"):
        a = arg(fw[-1], _param_index(mn, pn), pn) if fw else None
        if a != ("name", pn):
            fw_ok = False
    rep.check(fw_ok, "SIB", "_Schedule.add_pulse|forwards-parameters", "add_pulse hands its own parameters to make_next_pulse_slot unchanged", f"add_pulse alters an argument before computing the slot: {sh(fw[-1].value) if fw else '?'}", E.where(ap))
    # the estimate returns slot.ti - last.tf, which is what add_pulse inserts
    m = has(Sest.ret, "Q_slot.ti - Q_s[Q_c][-1].tf")
    ok = m is not None and m["Q_slot"] == ce.value and m["Q_c"] == arg(ce, _param_index(mn, "channel"), "channel")
    rep.check(ok, "SIB", "estimate_added_delay|returns-slot.ti-last.tf", "returns next_slot.ti - last.tf", f"the estimate is no longer slot.ti - last.tf (add_pulse inserts exactly slot.ti - last.tf): {sh(Sest.ret, 200)}", E.where(est))
    dl = [l for l in Sap.calls("add_delay") if l.fn == ap.short]
    m = has(arg(dl[-1], 0, "duration"), "Q_slot.ti - Q_s[Q_c][-1].tf") if dl else None
    rep.check(m is not None and fw and m["Q_slot"] == fw[-1].value and m["Q_c"] == ("name", "channel"), "SIB", "_Schedule.add_pulse|inserts-slot.ti-last.tf", "add_pulse inserts a delay of slot.ti - last.tf", "add_pulse no longer inserts slot.ti - last.tf before the pulse", E.where(ap))
    rep.floor("SIB", 9)

    # -------------------------------------------------------------- GUARD
    seqmod = E.P.module("pulser.sequence.sequence")
    protocols = set(E.P.fold(seqmod, seqmod.assigns["PROTOCOLS"]))
    used = set()
    for f in E.P.all_functions():
        if f.module.name != "pulser.sequence._schedule":
            continue
        for n in ast.walk(f.node):
            if isinstance(n, ast.Compare) and len(n.ops) == 1:
                for x, y in ((n.left, n.comparators[0]), (n.comparators[0], n.left)):
                    if "protocol" in norm(x) and isinstance(y, ast.Constant) and isinstance(y.value, str):
                        used.add(y.value)
            if isinstance(n, ast.keyword) and n.arg == "protocol" and isinstance(n.value, ast.Constant):
                used.add(n.value.value)
    rep.check(used <= protocols and {"no-delay", "wait-for-all"} <= used, "GUARD", "scheduler|protocol-literals⊆PROTOCOLS", f"{sorted(used)} ⊆ {sorted(protocols)}", f"protocol literals {sorted(used - protocols)} are not in PROTOCOLS {sorted(protocols)} / expected literals missing", E.where(mn))
    # _find_add_delay is called under `protocol != "no-delay"` only
    for l in [l for l in Smn.calls("_find_add_delay") if l.fn == mn.short]:
        cj = sym.conj_of(l.cond)
        ok = len(cj) == 1 and is_(cj[0], "protocol != 'no-delay'") is not None
        rep.check(ok, "GUARD", "make_next_pulse_slot|conflict-scan-iff-not-no-delay", "other channels are scanned iff protocol != 'no-delay'", f"the conflict scan is conditioned on {sh(l.cond)}", E.where(mn, l.node))
    # conflict test: the update of the start time happens iff the examined slot's targets overlap the new pulse's, or wait-for-all
    returned = {t[1] for t in sym.subterms(Sfad.ret) if t[0] == "loop"}  # loop-carried variables that reach the result
    # (the per-channel scan may live in a private helper that *returns* the new start time: helpers are inlined, their
    # logs carry the caller's path condition and loops)
    upd = [l for l in Sfad.logged("assign") if l.loops and l.target is not None and l.target[1] in returned and mentions(l.value, "fall_time") and unobj(l.value)[0] not in ("loopexit", "loop", "ifexp")]
    upd += [l for l in Sfad.logged("return") if l.loops and l.fn != fad.short and l.value is not None and mentions(l.value, "fall_time")]
    ok_conf = ok_skip = bool(upd)
    for l in upd:
        mc = None
        for x in sym.conj_of(l.cond):
            mc = mc or is_(x, "(Q_op.targets & Q_s[channel][-1].targets) or protocol == 'wait-for-all'")
        ok_conf = ok_conf and mc is not None and _is_examined_slot(mc["Q_op"], l)
        ok_skip = ok_skip and any(is_(x, "Q_ch != channel") is not None for x in sym.conj_of(l.cond))
    rep.check(ok_conf, "GUARD", "_find_add_delay|conflict=overlap-or-wait-for-all", "conflict iff the examined slot's targets overlap the new pulse's targets, or protocol == 'wait-for-all'", "the conflict test is no longer `<examined slot>.targets & self[channel][-1].targets or protocol == 'wait-for-all'` (it must compare the targets the other pulse had, not the other channel's current targets)", E.where(fad))
    rep.check(ok_skip, "GUARD", "_find_add_delay|skips-own-channel", "the channel itself is skipped", "the scan no longer skips the channel the pulse is added to", E.where(fad))
    # the backwards scan of another channel may stop only where nothing earlier can matter: at a non-pulse slot that
    # ended 2*rise_time ago, at a pulse whose ramp-down is over, or at the conflicting pulse that set the start time;
    # a pulse that is still ramping down but does not conflict must not end the scan (an earlier one may conflict)
    brk = [l for l in Sfad.logged("break") if len(l.loops) >= 2] + [l for l in Sfad.logged("return") if len(l.loops) >= 2 and l.fn != fad.short]
    ok_brk = bool(brk)
    bad_brk = None
    for l in brk:
        safe = False
        for x in sym.conj_of(l.cond):
            if is_(x, "(Q_op.targets & Q_s[channel][-1].targets) or protocol == 'wait-for-all'") is not None:
                safe = True
            if x[0] == "cmp" and x[1] in ("Lt", "LtE") and any(t[0] == "attr" and t[2] == "tf" and t[1][0] == "elem" for t in sym.subterms(x[2])) and (mentions(x[2], "fall_time") or mentions(x[2], "rise_time")):
                safe = True
        if not safe:
            ok_brk, bad_brk = False, l
    rep.check(ok_brk, "GUARD", "_find_add_delay|scan-stops-only-when-safe", "every `break` of the backwards scan is under: slot end + ramp-down <= start time, or the conflict test",
              f"the scan of the other channel's slots stops under `{sh(bad_brk.cond, 200) if bad_brk else 'no break found'}`: a pulse that does not conflict but is still ramping down ends the scan, so an earlier conflicting pulse on that channel is never seen", E.where(fad, bad_brk.node) if bad_brk else E.where(fad))
    for f in (add, est):
        rep.check(must_pass(E, f, vap), "GUARD", f"{f.short}|validates-protocol", "_validate_add_protocol on every path", f"{f.short} can proceed without validating the protocol", E.where(f))
    rep.floor("GUARD", 7)

    # --------------------------------------------------------------- FLOW
    # every use of another channel's slot end is extended by that slot's ramp-down
    # (the EOM state is that of the examined slot -- `in_eom_mode(op)`, the per-slot form the sampler uses -- not the
    #  channel's current one: a pulse played before enable_eom_mode keeps its regular fall time)
    FALL = "Q_op.tf + Q_op.type.fall_time(Q_cs.channel_obj, in_eom_mode=Q_cs.in_eom_mode(Q_op)) + QS_r"
    FALL_NOW = "Q_op.tf + Q_op.type.fall_time(Q_cs.channel_obj, in_eom_mode=Q_cs.in_eom_mode()) + QS_r"
    RISE = "Q_op.tf + 2 * Q_cs.channel_obj.rise_time + QS_r"
    n_uses = 0
    kinds = set()
    for l in Sfad.log:
        if l.kind not in ("test", "assign", "return") or l.value is None or (l.kind == "return" and (l.fn == fad.short or not l.loops)):
            continue
        ends = [s for s in sym.subterms(l.value) if s[0] == "attr" and s[2] == "tf" and s[1][0] == "elem"]
        if not ends:
            continue
        n_uses += 1
        mf, mr = has(l.value, FALL), has(l.value, RISE)
        if mf is None and mr is None and has(l.value, FALL_NOW) is not None:
            rep.violation("FLOW", f"_find_add_delay|fall-time-of-the-slot's-own-mode|{l.kind}", f"`{sh(l.value, 120)}` takes the other channel's fall time with in_eom_mode() -- the channel's CURRENT mode -- for every past slot: after enable_eom_mode() a 'min-delay' / 'wait-for-all' pulse on another channel starts before the last regular pulse (long fall time) has ramped down", E.where(fad, l.node))
            mf = has(l.value, FALL_NOW)
        kind = "fall" if mf else "rise" if mr else "none"
        kinds.add((kind, l.kind))
        m = mf or mr
        same_ch = m is not None and _schedule_of_slot(m["Q_op"]) == m["Q_cs"]
        if kind == "rise" and l.kind == "test" and m is not None:
            # the shorter 2*rise_time look-back is for slots that are not pulses at all: a zero-amplitude pulse that
            # holds a detuning ("detuned delay") still ramps down with its own fall time and can conflict
            only_non_pulse = any(is_(x, "not isinstance(Q_op.type, Pulse)", {"Q_op": m["Q_op"]}) is not None for x in sym.conj_of(l.cond))
            rep.check(only_non_pulse, "FLOW", "_find_add_delay|2*rise_time-look-back-only-for-non-pulses", "the 2*rise_time threshold is applied under `not isinstance(op.type, Pulse)` alone", f"the 2*rise_time look-back is applied under `{sh(l.cond, 160)}`: slots that are pulses (e.g. zero-amplitude pulses holding a detuning) are treated as plain delays, so a conflict with them is never detected", E.where(fad, l.node))
        rep.check(m is not None and same_ch, "FLOW", f"_find_add_delay|op.tf+ramp-down|{kind}|{l.kind}", "the other channel's end is extended by the fall time (pulse) or 2*rise_time (non-pulse), evaluated for that channel and its EOM state",
                  f"`{sh(l.value)}` uses another channel's end without its own ramp-down (fall_time(<that channel>, in_eom_mode=<that channel's state>) for pulses, 2*rise_time otherwise): a pulse could start while the other is still ramping down", E.where(fad, l.node))
    if n_uses < 3 or "test" not in {k for _x, k in kinds} or not ({"assign", "return"} & {k for _x, k in kinds}):
        rep.error(f"_find_add_delay: expected tests on and an update from the other channels' slot ends, found {sorted(kinds)}")
    # start = max(t0, *phase barriers)
    slot = [l for l in Smn.calls("_TimeSlot") if l.fn == mn.short][-1]
    ti = arg(slot, 1, "ti")
    rep.check(has(ti, "max(Q_t0, *phase_barrier_ts)") is not None, "FLOW", "make_next_pulse_slot|start>=phase-barriers", "current_max_t = max(t0, *phase_barrier_ts)", "the phase-shift barriers no longer bound the start time from below", E.where(mn))
    # Pulse.fall_time: both waveforms contribute their END buffer, combined by max, plus the rise time
    pft = E.fn("pulser.pulse.Pulse.fall_time")
    r = S(E, pft).ret
    m = has(r, "max(self.amplitude.modulation_buffers(channel, eom=in_eom_mode)[1], self.detuning.modulation_buffers(channel, eom=in_eom_mode)[1]) + QS_r")
    rep.check(m is not None, "FLOW", "Pulse.fall_time|max-of-both-end-buffers", "fall time uses the END modulation buffer ([1]) of both the amplitude and the detuning, combined by max", f"Pulse.fall_time is {sh(r, 220)}: amplitude and detuning must both contribute their end buffer (modulation_buffers(channel, eom=in_eom_mode)[1]), combined by max", E.where(pft))
    m = has(r, "(Q_e.rise_time if in_eom_mode else channel.rise_time) + max(Q_a, Q_b)")
    rep.check(m is not None and mentions(m["Q_e"], "eom_config"), "FLOW", "Pulse.fall_time|plus-rise_time", "fall time = rise time (the EOM's in EOM mode) + end buffer", f"Pulse.fall_time no longer adds the rise time of the mode in use: {sh(r, 220)}", E.where(pft))
    from .c10 import _lookback

    _lookback(E, rep)
    rep.floor("FLOW", 6)

    # -------------------------------------------------------------- ALIGN
    al = E.method(SEQ, "align")
    Sal = S(E, al)
    dl = [l for l in Sal.calls("_delay") if l.fn == al.short]
    if not dl:
        raise AnalysisError("anchor: Sequence.align no longer calls _delay")
    for l in dl:
        d, ch = arg(l, 0, "duration"), arg(l, 1, "channel")
        # the delay is adjust_duration(T - get_duration(id)); T is the common end: the max over the channels of their ends
        # (with fall time iff at_rest), pushed forward by a fixed-point iteration until every channel can reach it with a
        # valid delay.  The iteration may be written inline (`loop(<name>, init, body)`) or in a private helper that
        # returns from inside `while True` (`loopexit(...)`): both are recognised by their shape, not by variable names.
        mT = has(d, "Q_s._schedule[Q_id].adjust_duration(Q_T - Q_self.get_duration(Q_id))") or has(d, "Q_s._schedule[Q_id].adjust_duration(Q_T - Q_self.get_duration(Q_id, include_fall_time=False))") if d is not None else None
        T = mT["Q_T"] if mT is not None else None
        fix_terms = [t for t in sym.subterms(T) if t[0] in ("loop", "loopexit")] if T is not None else []
        MAXP = "max(Q_all)"
        cands_max = [m_ for top in ([T] if T is not None else []) + [x.value for x in Sal.log if x.value is not None and x.fn == al.short] for m_ in sym.find_all(top, sym.Pattern(MAXP))]
        tgt_ok = any(m_["Q_all"][0] == "comp" and is_(m_["Q_all"][2], "Q_self.get_duration(Q_e, include_fall_time=at_rest)") is not None and m_["Q_all"][3] and m_["Q_all"][3][0][0] == ("name", "channels") for m_ in cands_max)
        rep.check(tgt_ok, "ALIGN", "Sequence.align|target=max(end incl. fall time iff at_rest)", "tf = max over channels of get_duration(id, include_fall_time=at_rest)", f"the alignment target is no longer the max over the given channels of get_duration(id, include_fall_time=at_rest): delay = {sh(d, 200)}", E.where(al, l.node))
        plain = mT is not None and mT["Q_id"] == ch
        rep.check(plain, "FLOW", "Sequence.align|delta-subtracts-plain-end", "delta = tf - get_duration(id)  (the delay is appended at the plain end)",
                  f"align delays a channel by {sh(d, 200)}: the subtrahend must be the channel's own plain end get_duration(id) -- with its fall time included, channels do not end together at the latest at-rest time", E.where(al, l.node))
        rep.check(has(d, "Q_s[Q_id].adjust_duration(Q_x)", {"Q_id": ch}) is not None and any(is_(x, "0 < Q_d") is not None for x in sym.conj_of(l.cond)), "ALIGN", "Sequence.align|positive-adjusted-delay", "only a positive delay is added, after adjust_duration on that channel", "the alignment delay is no longer adjusted to the channel's clock / guarded by delta > 0", E.where(al, l.node))
        # the channels END TOGETHER: each delay is stretched to its own channel's minimum duration and clock period, so the
        # common end has to be one every channel can reach -- found by iterating `tf` to a fixed point of
        # max over channels of (end + adjust_duration(tf - end))
        body_ok = any(mentions(t, "adjust_duration") and any(u[0] == "call" and u[1] == ("name", "max") for u in sym.subterms(t)) for t in fix_terms)
        # inside the iteration every channel end is the PLAIN end (where the delay is appended): a channel "has to move"
        # iff the common end is after its plain end -- testing against the end with fall time skips the channel whose own
        # pending fall time defines the common end, and its stretched delay then overshoots
        fall_in_body = [u for t in fix_terms for u in sym.subterms(t[3] if t[0] == "loop" and len(t) == 4 else t) if u[0] == "call" and u[1][0] == "attr" and u[1][2] == "get_duration" and any(k == "include_fall_time" and v != ("const", False) for k, v in u[3])]
        rep.check(not fall_in_body, "ALIGN", "Sequence.align|iteration-uses-plain-ends", "no get_duration(..., include_fall_time=<at_rest>) inside the fixed-point iteration", f"the iteration that pushes the common end compares it with `{sh(fall_in_body[0], 80) if fall_in_body else ''}` (the end WITH fall time): with at_rest=True the channel whose fall time defines the common end is never asked to move, its delay is then stretched past the common end and the channels do not end together", E.where(al, l.node))
        rep.check(bool(fix_terms) and body_ok, "ALIGN", "Sequence.align|common-end-reachable-by-every-channel", "the common end is iterated to max_i(end_i + adjust_duration(end - end_i))", "align adds `adjust_duration(tf - end)` to each channel with tf fixed beforehand: a channel whose minimum duration or clock period stretches its delay ends later than the others (200 ns on rydberg_global and 204 ns on raman_local of DigitalAnalogDevice end at 216 and 204), so the aligned channels do not end together", E.where(al, l.node))
    rep.floor("ALIGN", 3)
    # estimate_added_delay predicts what the same add inserts: it goes through the same make_next_pulse_slot, with the same
    # inputs -- including the phase-drift parameters that add_eom_pulse(correct_phase_drift=True) hands over (the
    # corrected phase differs from the last pulse's phase, which adds a phase-jump buffer)
    mk_est = [l for l in S(E, est).calls("make_next_pulse_slot") if l.fn == est.short]
    mk_add = [l for l in S(E, E.method(SEQ, "_add")).calls("make_next_pulse_slot")] or [l for l in S(E, E.method(SCHED, "add_pulse")).calls("make_next_pulse_slot")]
    if not mk_est:
        raise AnalysisError("anchor: Sequence.estimate_added_delay no longer calls make_next_pulse_slot")
    drift_in_add = any(arg(l, 5, "phase_drift_params") not in (None, sym.NONE) for l in mk_add)
    drift_in_est = any(arg(l, 5, "phase_drift_params") not in (None, sym.NONE) for l in mk_est)
    rep.check(drift_in_est or not drift_in_add, "FLOW", "Sequence.estimate_added_delay|same-inputs-as-add|phase_drift_params", "the estimate hands make_next_pulse_slot the phase-drift parameters the add hands it", "estimate_added_delay calls make_next_pulse_slot without phase_drift_params while the add passes them for add_eom_pulse(correct_phase_drift=True): in EOM mode with a non-zero detuning_off the estimate is 0 ns where the add inserts a phase-jump buffer (172 ns in the repro)", E.where(est, mk_est[0].node))
    return {"uses_of_other_channel_end": n_uses}


def _is_examined_slot(t, l) -> bool:
    """The term is the element of the innermost loop (the slot being examined)."""
    return t[0] == "elem" and bool(l.loops) and t[1] == l.loops[-1]


def _schedule_of_slot(t):
    """For op = elem(<channel schedule>[::-1]) (or reversed(...), or <schedule>.slots) return the channel-schedule term."""
    if t[0] != "elem":
        return None
    it = t[1]
    while it[0] == "idx" and it[2][0] == "slice":
        it = it[1]
    if it[0] == "call" and it[1] == ("name", "reversed") and it[2]:
        it = it[2][0]
    if it[0] == "attr" and it[2] == "slots":
        it = it[1]
    return it
