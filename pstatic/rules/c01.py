"""C01 -- every scheduled pulse respects the limits of its channel and device."""
from __future__ import annotations

import ast

from .. import none_rule
from ..absval import abstractor
from ..engine import CHS, SCHED, SEQ, Engine, event_desc
from ..flow import Event, FunctionFlow, Node
from ..guards import GuardAnalysis, GuardSpec
from ..guardspec import check_rows, rejection_conjunctions
from ..model import AnalysisError, dotted, norm
from ..report import Report, load_table

EXPLANATION = (
    "PASS: every path from a public Sequence method to the append of a pulse slot passes pulse validation "
    "(_validate_and_adjust_pulse -> Channel/DMM.validate_pulse + validate_duration, or _process_eom_parameters), the scheduled pulse is the *result* of the "
    "validation (reaching definitions), every slots.append in the scheduler is dominated by the blocking sequence-duration check, and only the two known callers hand pulses to the scheduler. "
    "GUARD: the rejection atoms of validate_pulse / validate_duration / DMM.validate_pulse / _check_duration / Pulse.__init__ are extracted (guard abstraction: operand provenance + wrapper tags + canonical relation) "
    "and compared with a spec written from the property statement: strictness (>, not >=), abs() on detuning, any-quantifier, None-guard in the same conjunction. "
    "NONE: every use of an Optional channel/device limit in an ordering comparison / arithmetic / float() is dominated by an `is not None` guard on the same access path. "
    "FINITE: a finiteness rejection over amplitude and detuning samples exists on the validation path. "
    "NOT decided: the arithmetic of clock rounding, averages and DMM weight products as numbers ('only lengthened to the next multiple'). PASS (added): the duration check is applied to the very end time stored in the new slot; the off pulse validated by _process_eom_parameters carries the detuning_off computed by calculate_detuning_off (the one that is returned and scheduled). GUARD tables require `is not None` (a truthiness test is rejected where 0 is a legal limit); validations extracted into private helpers are followed with their parameters bound to the caller's arguments. Round 3 (added): a DMM pulse is validated against the detuning map found for that DMM (validate_pulse(pulse, <that map>) on the `map is not None` branch); the amplitude compared with max_amp is the programmed one (no rounding); guards written as a loop over a literal table of cases or behind a local callee are decided on the symbolic normal form."
    ' Round 5 (added after an independent audit found four defects, all repaired): the pulse returned by _validate_and_adjust_pulse -- re-sampled with change_duration when the duration is adjusted to the clock -- is itself an argument of validate_pulse; every alternative of the value validate_duration returns is compared with max_duration before it is returned; a float tolerance on a limit is a rounding of the DIFFERENCE with the limit (`round(q - L, n) > 0`, `q - L > 10**-PRECISION`, decided on the symbolic normal form, which keeps the signs), never a rounding of the quantity alone.'
    ' Round 6 (added after the fifth independent round of breaking changes): the DMM pulse is validated against the detuning map of the addressed DMM channel (the scan of config_detuning_map calls stops at the call whose name matches the channel); the re-sampled pulse is validated under the very condition that selects change_duration (or unconditionally).'
)
ASSUMPTIONS = [
    "guards are matched structurally (roots/tags/relation); numeric equivalence of differently written guards is not attempted",
    "Optional-ness of a field is taken from its declared annotation",
]

OPT_CLASSES = [
    "pulser.channels.base_channel.Channel",
    "pulser.channels.eom.BaseEOM",
    "pulser.sequence._schedule._Schedule",
    "pulser.sequence._schedule._EOMSettings",
]
NONE_EXCEPTIONS = {
    "_Schedule.add_target|min_retarget_interval": "add_target is only reached for Local channels (Sequence._target rejects `addressing != 'Local'` first) and Channel.__post_init__ requires min_retarget_interval for Local addressing",
    "switch_device.check_retarget|min_retarget_interval": "evaluated under `ch_obj.addressing == 'Local'`; Channel.__post_init__ requires the retarget parameters for Local channels",
    "switch_device.check_retarget|fixed_retarget_t": "evaluated under `ch_obj.addressing == 'Local'`; Channel.__post_init__ requires the retarget parameters for Local channels",
}


def _calls_to(E: Engine, fl: FunctionFlow, quals: set[str]):
    for node, i, e in fl.all_events():
        if e.kind == "call" and any(c.innermost().qualname in quals for c, _m in e.callees):
            yield node, i, e


def _never(fl, x) -> bool:  # noqa
    return False


def run(E: Engine, rep: Report, tier: str) -> dict:
    E.prepare_summaries()
    P = E.P
    vap = E.method(SEQ, "_validate_and_adjust_pulse")
    pep = E.method(SEQ, "_process_eom_parameters")
    add_ = E.method(SEQ, "_add")
    add_pulse = E.method(SCHED, "add_pulse")
    mnps = E.method(SCHED, "make_next_pulse_slot")
    chk = E.method(SCHED, "_check_duration")
    ch_vp = E.fn("pulser.channels.base_channel.Channel.validate_pulse")
    dmm_vp = E.fn("pulser.channels.dmm.DMM.validate_pulse")
    ch_vd = E.fn("pulser.channels.base_channel.Channel.validate_duration")

    # ---------------------------------------------------------- PASS-1
    fl = E.flow(add_)
    sites = list(_calls_to(E, fl, {add_pulse.qualname}))
    if not sites:
        raise AnalysisError("anchor: Sequence._add no longer calls _Schedule.add_pulse")
    for node, _i, e in sites:
        n = e.node
        arg = n.args[0] if n.args else next((k.value for k in n.keywords if k.arg == "pulse"), None)
        ok = False
        detail = "scheduled pulse is not a plain name"
        if isinstance(arg, ast.Name):
            defs = fl.reaching_defs(node.id, arg.id)
            bad = []
            for d in defs:
                if isinstance(d, ast.Assign) and isinstance(d.value, ast.Call):
                    cs, _ = E.R.callees(d.value, fl.ctx)
                    if cs and all(c.innermost() is vap for c, _m in cs):
                        continue
                bad.append(norm(d) if isinstance(d, ast.AST) else str(d))
            ok = not bad
            detail = f"definitions of `{arg.id}` reaching add_pulse that are not the result of _validate_and_adjust_pulse: {bad}"
        rep.check(ok, "PASS", "Sequence._add|scheduled-pulse-is-validation-result", "the pulse handed to the scheduler is the value returned by _validate_and_adjust_pulse on every path", detail, E.where(add_, n))

    # ---------------------------------------------------------- PASS-2
    def est_vp(fl_: FunctionFlow, e: Event) -> bool:
        return e.kind == "call" and bool(e.callees) and all(c.innermost() in (ch_vp, dmm_vp) for c, _m in e.callees)

    def est_vd(fl_: FunctionFlow, e: Event) -> bool:
        return e.kind == "call" and bool(e.callees) and all(c.innermost() is ch_vd for c, _m in e.callees)

    for label, est in (("validate_pulse", est_vp), ("validate_duration", est_vd)):
        ga = GuardAnalysis(E, GuardSpec(label, _never, est), lambda a, b, c: False)
        _v, exit_fact = ga.run(E.R.effective(vap))
        rep.check(exit_fact, "PASS", f"Sequence._validate_and_adjust_pulse|passes-{label}", f"every path to the return passes {label}", f"_validate_and_adjust_pulse can return without calling {label}", E.where(vap))
    # adjusted duration flows into the returned waveforms
    from .. import sym as _sym0
    from .symutil import S as _S0, is_ as _is0, sh as _sh0

    rv_ = _S0(E, vap).ret
    pulses_ = [c for c in _sym0.subterms(rv_) if c[0] == "call" and c[1] == ("name", "Pulse")]

    def _field(c, i, name):
        for k, v in c[3]:
            if k == name:
                return v
        return c[2][i] if i < len(c[2]) else None

    from .symutil import branches as _br0, simplify_under as _su0

    VD = "Q_ch.validate_duration(pulse.duration)"
    ok = bool(pulses_)
    n_chk = 0
    for conds_, leaf_ in _br0(rv_):
        lits_ = tuple(x for c_ in conds_ for x in _sym0.conj_of(c_))
        for c in [t for t in _sym0.subterms(leaf_) if t[0] == "call" and t[1] == ("name", "Pulse")]:
            for i_, w in ((0, "amplitude"), (1, "detuning")):
                v = _field(c, i_, w)
                if v is None:
                    ok = False
                    continue
                n_chk += 1
                v = _su0(v, lits_)
                m = _is0(v, f"pulse.{w} if Q_d == pulse.duration else pulse.{w}.change_duration(Q_d)")
                if m is not None and _is0(m["Q_d"], VD) is not None:
                    continue
                # the two alternatives written as two returns: the original waveform where the validated duration equals
                # the pulse's, change_duration(<validated duration>) where it differs
                same = any((mm := _is0(x, "Q_d == pulse.duration")) is not None and _is0(mm["Q_d"], VD) is not None for x in lits_)
                differs = any((mm := _is0(x, "Q_d != pulse.duration")) is not None and _is0(mm["Q_d"], VD) is not None for x in lits_)
                m2 = _is0(v, f"pulse.{w}.change_duration(Q_d)")
                if same and v == _sym0.Pattern(f"pulse.{w}").term:
                    continue
                if differs and m2 is not None and _is0(m2["Q_d"], VD) is not None:
                    continue
                ok = False
    ok = ok and n_chk >= 2
    rep.check(ok, "PASS", "Sequence._validate_and_adjust_pulse|adjusted-duration-reaches-waveforms", "returned pulse's waveforms come from change_duration(<validate_duration result>) (or are the originals when unchanged)", f"the validated/adjusted duration no longer flows into the returned pulse: {_sh0(rv_, 300)}", E.where(vap))
    # DMM.validate_pulse passes super().validate_pulse
    def est_super(fl_: FunctionFlow, e: Event) -> bool:
        return e.kind == "call" and bool(e.callees) and all(c.innermost() is ch_vp for c, _m in e.callees)

    ga = GuardAnalysis(E, GuardSpec("super-validate", _never, est_super), lambda a, b, c: False)
    _v, exit_fact = ga.run(E.R.effective(dmm_vp))
    rep.check(exit_fact, "PASS", "DMM.validate_pulse|passes-Channel.validate_pulse", "the DMM validation includes the generic channel validation", "DMM.validate_pulse can return without calling Channel.validate_pulse", E.where(dmm_vp))

    # ---------------------------------------------------------- PASS-4
    # inside make_next_pulse_slot every path passes _check_duration(tf, <blocking param>)
    blocking_param = [p for p in mnps.params if "block" in p]
    if not blocking_param:
        raise AnalysisError("anchor: make_next_pulse_slot has no blocking parameter")
    bp = blocking_param[0]

    def est_chk_passthrough(fl_: FunctionFlow, e: Event) -> bool:
        if e.kind != "call" or not e.callees or not all(c.innermost() is chk for c, _m in e.callees):
            return False
        n = e.node
        arg = n.args[1] if len(n.args) > 1 else next((k.value for k in n.keywords if k.arg and "block" in k.arg), None)
        return isinstance(arg, ast.Name) and arg.id == bp

    ga = GuardAnalysis(E, GuardSpec("check-duration", _never, est_chk_passthrough), lambda a, b, c: False)
    _v, exit_fact = ga.run(E.R.effective(mnps))
    rep.check(exit_fact, "PASS", "_Schedule.make_next_pulse_slot|passes-_check_duration", f"every path passes _check_duration(tf, {bp})", "make_next_pulse_slot can return a slot without the sequence-duration check", E.where(mnps))

    def est_blocking_check(fl_: FunctionFlow, e: Event) -> bool:
        if e.kind != "call" or not e.callees:
            return False
        n = e.node
        if all(c.innermost() is chk for c, _m in e.callees):
            arg = n.args[1] if len(n.args) > 1 else next((k.value for k in n.keywords if k.arg and "block" in k.arg), None)
            return arg is None or (isinstance(arg, ast.Constant) and arg.value is True)
        if all(c.innermost() is mnps for c, _m in e.callees):
            idx = mnps.params.index(bp) - 1
            arg = n.args[idx] if len(n.args) > idx else next((k.value for k in n.keywords if k.arg == bp), None)
            return isinstance(arg, ast.Constant) and arg.value is True
        return False

    def slots_append(fl_: FunctionFlow, node: Node, e: Event) -> bool:
        return e.kind == "write" and any(o == CHS and f == "slots" for o, f in e.places) and fl_.fn.cls is not None and fl_.fn.cls.qualname == SCHED

    sched = E.cls(SCHED)
    n_app = 0
    for name, fs in sched.methods.items():
        for f in fs:
            flm = E.flow(f)
            apps = [(nd, e) for nd, _i, e in flm.all_events() if slots_append(flm, nd, e)]
            if not apps:
                continue
            n_app += len(apps)
            ga = GuardAnalysis(E, GuardSpec("blocking-duration-check", _never, est_blocking_check), slots_append)
            viol = [v for v in ga.run(E.R.effective(f))[0] if v["function"] == f.short]
            rep.check(not viol, "PASS", f"{f.short}|append-dominated-by-duration-check", f"{len(apps)} slots.append site(s) dominated by the blocking _check_duration", f"a slot can be appended without the blocking sequence-duration check: {[v['event'] + ' @ ' + v['where'] for v in viol]}", E.where(f))
    if n_app < 3:
        rep.error(f"only {n_app} slots.append sites found in _Schedule (expected >= 3: delay, target, pulse)")
    # the value checked against the maximum duration IS the end time of the slot that gets scheduled
    from .. import sym as _sym
    from .symutil import S as _S, arg as _arg, has as _has, is_ as _is, sh as _sh

    for mname in ("add_delay", "add_target", "make_next_pulse_slot"):
        f = E.method(SCHED, mname)
        Sf = _S(E, f)
        slots_ = [l for l in Sf.calls("_TimeSlot") if l.fn == f.short]
        checks = [l for l in Sf.log if l.fn == f.short and l.kind == "call" and l.target == ("attr", ("name", "self"), "_check_duration")]
        ok = bool(checks) and bool(slots_)
        why = "no duration check / slot construction found" if not ok else ""
        for c in checks:
            a = _arg(c, 0, "t")
            for sl in slots_:
                b = _arg(sl, 2, "tf")
                if a != b:
                    ok, why = False, f"the slot ends at `{_sh(b, 100)}` but `{_sh(a, 100)}` is what gets checked"
        rep.check(ok, "PASS", f"_Schedule.{mname}|checked-value-is-slot-end", "the sequence-duration check is applied to the very end time stored in the new slot", f"in _Schedule.{mname} {why}: a slot ending after the device's maximum sequence duration could be scheduled", E.where(f))
    # the one appender outside the scheduler takes the literal initial slot
    ats = E.method(SEQ, "_add_to_schedule")
    for caller, e in E.callers_of(ats):
        n = e.node
        arg = n.args[1] if isinstance(n, ast.Call) and len(n.args) > 1 else None
        ok = (
            isinstance(arg, ast.Call) and (dotted(arg.func) or "") == "_TimeSlot" and len(arg.args) >= 3
            and isinstance(arg.args[0], ast.Constant) and arg.args[0].value == "target"
            and norm(arg.args[1]) == "-1" and norm(arg.args[2]) == "0"
        )
        rep.check(ok, "PASS", f"{caller.short}|_add_to_schedule-initial-slot", "only the literal initial target slot (\"target\", -1, 0, ...) is appended outside the scheduler", f"_add_to_schedule is called with {norm(arg) if arg is not None else '?'}", E.where(caller, n))

    # ---------------------------------------------------------- PASS-5
    allowed = {"Sequence._add", "_Schedule.enable_eom"}

    def reaches_only_allowed(g, depth: int = 0) -> bool:
        """g is an allowed caller, or a private scheduler helper all of whose callers are."""
        if g.short in allowed:
            return True
        if depth >= 3 or not (g.cls is not None and g.cls.qualname == SCHED and g.name.startswith("_") and not g.name.startswith("__")):
            return False
        cs = [c for c, _e in E.callers_of(g)]
        return bool(cs) and all(reaches_only_allowed(c, depth + 1) for c in cs)

    direct = {c.short: c for c, _e in E.callers_of(add_pulse)}
    callers = sorted(c if c in allowed or not reaches_only_allowed(g) else c + " (helper of an allowed caller)" for c, g in direct.items())
    bad_callers = sorted(c for c, g in direct.items() if not reaches_only_allowed(g))
    allowed = allowed | {c for c in direct if c not in bad_callers}
    callers = sorted(direct)
    rep.check(set(callers) <= allowed and "Sequence._add" in callers, "PASS", "_Schedule.add_pulse|who-may-call", f"callers = {callers}", f"_Schedule.add_pulse is called from {sorted(set(callers) - allowed)}: a pulse can be scheduled without passing the validation in Sequence._add", E.where(add_pulse))
    # interprocedural: every public method reaching add_pulse's append passes a validator
    def est_validator(fl_: FunctionFlow, e: Event) -> bool:
        return e.kind == "call" and bool(e.callees) and all(c.innermost() in (vap, pep) for c, _m in e.callees)

    def pulse_append(fl_: FunctionFlow, node: Node, e: Event) -> bool:
        return fl_.fn is add_pulse and e.kind == "write" and any(o == CHS and f == "slots" for o, f in e.places)

    n_entries = 0
    for f in E.public_entries():
        if f.name.startswith("__"):
            continue
        c = E.R.effective(f)
        if add_pulse.qualname not in {E.S._callables[k].fn.qualname for k in E.S.reachable(c)}:
            continue
        ga = GuardAnalysis(E, GuardSpec("pulse-validated", _never, est_validator), pulse_append)
        viol, _x = ga.run(c)
        # writes on fresh sequences (build / switch_*) are replays of calls that are validated themselves
        n_entries += 1
        rep.check(not viol, "PASS", f"Sequence.{f.name}|pulse-append-dominated-by-validation", "every path to the pulse append passes _validate_and_adjust_pulse or _process_eom_parameters", f"a pulse slot can be appended without validation via {[' -> '.join(v['via']) for v in viol][:3]}", E.where(f))
    # _process_eom_parameters validates the on- and the off-pulse
    flp = E.flow(pep)
    vcalls = list(_calls_to(E, flp, {ch_vp.qualname, dmm_vp.qualname}))
    # the off pulse that is validated carries the off-detuning that was computed (and is returned for scheduling)
    Sp_ = _S(E, pep)
    offs = []
    for l in Sp_.calls("validate_pulse"):
        pu = _arg(l, 0, "pulse")
        if pu is not None and pu[0] == "call" and len(pu[2]) >= 3 and pu[2][1][0] == "const" and float(pu[2][1][1]) == 0.0:
            offs.append(pu[2][2])
    comp = [t for t in _sym.subterms(Sp_.ret) if t[0] == "item" and t[2] == 0 and t[1][0] == "call" and t[1][1][0] == "attr" and t[1][1][2] == "calculate_detuning_off"]
    ok_off = bool(offs) and bool(comp) and all(any(_sym.contains(o, c) for c in comp) for o in offs)
    rep.check(ok_off, "PASS", "Sequence._process_eom_parameters|validated-off-pulse-is-the-computed-one", "the zero-amplitude pulse that is validated carries the detuning_off chosen by calculate_detuning_off (the value returned for scheduling)", f"the off pulse validated in _process_eom_parameters carries {[_sh(o, 60) for o in offs]}, not the computed detuning_off that is returned and scheduled: an off-detuning beyond max_abs_detuning passes", E.where(pep))
    rep.check(len(vcalls) >= 2, "PASS", "Sequence._process_eom_parameters|validates-on-and-off-pulse", f"{len(vcalls)} validate_pulse calls", "the EOM on/off pulses are no longer both validated", E.where(pep))
    # a pulse on a DMM is validated against the detuning map configured for that DMM: on the branch taken when a map
    # was found (`<map> is not None`), that very map is handed to validate_pulse (the default map of
    # DMM.validate_pulse is a single trap of weight 1)
    from .symutil import S as _S9b, arg as _arg9b, is_ as _is9b, sh as _sh9b

    Svap = _S9b(E, vap)
    n_dmm = 0
    for l in Svap.calls("validate_pulse"):
        for x in _sym.conj_of(l.cond):
            m_ = _is9b(x, "Q_map is not None")
            if m_ is None or not _sym.contains(m_["Q_map"], ("const", "detuning_map")) and not any(t[0] == "attr" and t[2] == "detuning_map" for t in _sym.subterms(m_["Q_map"])):
                continue
            n_dmm += 1
            got = _arg9b(l, 1, "detuning_map")
            # ... and for a channel that is scheduled, "its" map is the one stored with THAT channel's schedule,
            # `self._schedule[channel].detuning_map`: the same DMM configured twice (dmm_0, dmm_0_1) has two maps
            sched_maps = [t for t in _sym.subterms(m_["Q_map"]) if t[0] == "attr" and t[2] == "detuning_map" and t[1][0] == "idx" and t[1][1] == ("attr", ("name", "self"), "_schedule")]
            for t in sched_maps:
                rep.check(t[1][2] == ("name", "channel"), "PASS", "Sequence._validate_and_adjust_pulse|dmm-map-of-the-addressed-channel", "the map is read from self._schedule[channel]",
                          f"the detuning map of a scheduled DMM is read from `self._schedule[{_sh9b(t[1][2], 40)}]` instead of `self._schedule[channel]`: a DMM configured twice (dmm_0 and dmm_0_1, with different maps) has its pulses on dmm_0_1 validated against the map of dmm_0, so detunings below the bottom limits of the addressed map are accepted", E.where(vap, l.node))
            rep.check(got == m_["Q_map"], "PASS", "Sequence._validate_and_adjust_pulse|dmm-pulse-validated-against-its-map", "validate_pulse(pulse, <the DMM's detuning map>)",
                      f"on the DMM branch validate_pulse is called with detuning_map = `{_sh9b(got, 80) if got is not None else 'nothing'}`: the bottom-detuning limits are then checked against the default one-trap map instead of the map configured on this DMM", E.where(vap, l.node))
    if n_dmm < 1:
        raise AnalysisError("anchor: the DMM branch of _validate_and_adjust_pulse (validate_pulse under `<map> is not None`) was not found")
    # enable_eom's buffer pulse: duration through adjust_duration, literal zero amplitude
    en = E.method(SCHED, "enable_eom")
    from .symutil import S as _S9, arg as _arg9, sh as _sh9, unobj as _un9

    class _E9:  # the reporting line below needs a node
        node = en.node

    Se = _S9(E, en)
    bufs = Se.calls("add_pulse")
    if not bufs:
        raise AnalysisError("anchor: _Schedule.enable_eom no longer schedules its buffer through add_pulse")
    for l9 in bufs:
        e = l9
        pu9 = _arg9(l9, 0, "pulse")
        pu9 = _un9(pu9) if pu9 is not None else None
        ok = False
        arg = None
        if pu9 is not None and pu9[0] == "call":
            cp = type("L", (), {"kind": "call", "value": pu9})()
            dur9, amp9 = _arg9(cp, 0, "duration"), _arg9(cp, 1, "amplitude")
            ok = dur9 is not None and amp9 is not None and any(t[0] == "call" and t[1][0] == "attr" and t[1][2] == "adjust_duration" for t in _sym.subterms(dur9)) and amp9[0] == "const" and isinstance(amp9[1], (int, float)) and float(amp9[1]) == 0.0
        rep.check(ok, "PASS", "_Schedule.enable_eom|buffer-pulse-adjusted-and-zero-amp", "EOM buffer pulse: adjust_duration(...) duration, literal 0.0 amplitude", f"EOM buffer pulse is built as {_sh9(pu9, 120) if pu9 is not None else '?'}", E.where(en, e.node))
    # the pulse that is returned for scheduling is the pulse that was validated: when the duration is adjusted to the
    # clock period both waveforms are re-sampled (change_duration), which changes peak, average and finiteness -- so the
    # re-sampled pulse itself must be handed to validate_pulse, not only the pulse as given
    vap = E.method(SEQ, "_validate_and_adjust_pulse")
    Sv = _S9(E, vap)
    validated = {_un9(l.value[2][0]) for l in Sv.log if l.kind == "call" and l.value[1][0] == "attr" and l.value[1][2] == "validate_pulse" and l.value[2]}
    if not validated:
        raise AnalysisError("anchor: Sequence._validate_and_adjust_pulse no longer calls <channel>.validate_pulse")
    r_v = _un9(Sv.ret) if Sv.ret is not None else None
    resampled = r_v is not None and any(t[0] == "call" and t[1][0] == "attr" and t[1][2] == "change_duration" for t in _sym.subterms(r_v))
    rep.check(not resampled or r_v in validated, "PASS", "Sequence._validate_and_adjust_pulse|re-sampled-pulse-validated", "the returned (possibly re-sampled) pulse is an argument of validate_pulse",
              f"_validate_and_adjust_pulse validates {[_sh9(v_, 40) for v_ in validated]} but returns `{_sh9(r_v, 80)}`, whose waveforms were re-sampled with change_duration: the pulse that is scheduled can exceed max_amp, fall below min_avg_amp or hold non-finite samples although the pulse as given passed", E.where(vap))
    # ... and it is validated whenever it was re-sampled: the second validation runs under the very condition that
    #     selects change_duration (or unconditionally), not under a test that can never hold
    base_c = None
    for l in Sv.log:
        if l.kind == "call" and l.value[1][0] == "attr" and l.value[1][2] == "validate_pulse" and l.value[2] and _un9(l.value[2][0]) == ("name", "pulse"):
            base_c = set(_sym.conj_of(l.cond)) if base_c is None else base_c & set(_sym.conj_of(l.cond))
    for l in Sv.log:
        if not (l.kind == "call" and l.value[1][0] == "attr" and l.value[1][2] == "validate_pulse" and l.value[2]):
            continue
        a9 = _un9(l.value[2][0])
        cd = lambda t: any(x[0] == "call" and x[1][0] == "attr" and x[1][2] == "change_duration" for x in _sym.subterms(t))
        if not cd(a9) or base_c is None:
            continue
        allowed = set()
        for t in _sym.subterms(a9):
            if t[0] == "ifexp" and cd(t[2]) != cd(t[3]):
                allowed |= set(_sym.conj_of(t[1] if cd(t[2]) else _sym.mk_not(t[1])))
        extra = set(_sym.conj_of(l.cond)) - base_c - allowed
        extra = {x for x in extra if not any(x in set(_sym.conj_of(l2.cond)) for l2 in Sv.log if l2.kind == "call" and l2.value[1][0] == "attr" and l2.value[1][2] == "validate_pulse" and l2.value[2] and _un9(l2.value[2][0]) == ("name", "pulse"))}
        rep.check(not extra, "PASS", "Sequence._validate_and_adjust_pulse|re-sampled-pulse-validated-whenever-re-sampled", "validate_pulse(new_pulse) runs under the condition that selects change_duration",
                  f"the re-sampled pulse is validated only under `{' and '.join(_sh9(x, 80) for x in sorted(extra, key=str))}`, which is not the condition under which the waveforms are re-sampled: when the test does not hold (it compares the adjusted duration with the duration of the already adjusted pulse) the pulse that is scheduled is never validated", E.where(vap, l.node))
    rep.floor("PASS", 15)

    # ----------------------------------------------------------- GUARD
    rows = load_table("guards_c01.json")["rows"]
    check_rows(E, rep, "GUARD", rows)
    # clock rounding: only when not a multiple, and up to the next multiple
    r = _S(E, ch_vd).ret
    m = _has(r, "Q_d if Q_x % self.clock_period == 0 else Q_r")
    ok = m is not None and m["Q_r"][0] != "raise" and _is(m["Q_r"], "Q_d + self.clock_period - Q_d % self.clock_period", {"Q_d": m["Q_d"]}) is not None and _is(m["Q_d"], "int(duration)") is not None
    rep.check(ok, "GUARD", "Channel.validate_duration|round-only-when-not-multiple", "duration adjusted (not rejected) iff duration % clock_period != 0, up to the next multiple of the clock period", f"the clock-multiple adjustment `d if d % clock_period == 0 else d + clock_period - d % clock_period` is gone or now rejects: {_sh(r, 300)}", E.where(ch_vd))
    # ... and what is returned -- the duration that is scheduled -- is itself bounded by max_duration: for every
    # alternative of the returned value there is a rejection `self.max_duration < <that value>`
    from ..bounds import unwrap as _unw
    from .symutil import branches as _brD, sh as _shD

    Sd = _S(E, ch_vd)
    bounded = []
    for l in Sd.logged("raise"):
        for x in _sym.conj_of(l.cond):
            if x[0] == "cmp" and x[1] in ("Lt", "Gt"):
                big, small = (x[3], x[2]) if x[1] == "Lt" else (x[2], x[3])
                if small == ("attr", ("name", "self"), "max_duration"):
                    bounded.append(_sym.subst(big, lambda t: _unw(t) if t[0] == "call" and t[1] == ("name", "int") else None))
    for i_, (conds_, leaf_) in enumerate(_brD(r)) if r is not None else ():
        if leaf_ is None or leaf_[0] == "raise":
            continue
        leaf_n = _sym.subst(leaf_, lambda t: _unw(t) if t[0] == "call" and t[1] == ("name", "int") else None)
        rep.check(leaf_n in bounded, "GUARD", f"Channel.validate_duration|returned-duration<=max_duration|alt{i_}", "a value above max_duration is rejected before it is returned",
                  f"validate_duration can return `{_shD(leaf_, 100)}` without comparing it with max_duration (compared: {[_shD(b_, 60) for b_ in bounded]}): the duration rounded up to the clock period exceeds the maximum that the channel refuses when asked for directly", E.where(ch_vd))
    rep.floor("GUARD", 15)

    # ---------------------------------------------------------- FINITE
    found = {"amplitude": False, "detuning": False}
    for f in (ch_vp, dmm_vp, E.fn("pulser.pulse.Pulse.__init__")):
        pfx = "pulse." if f is not E.fn("pulser.pulse.Pulse.__init__") else ""
        for _line, conj in rejection_conjunctions(E, f):
            for lit in conj:
                avs = []
                if lit.atom is not None:
                    avs = [lit.atom.lhs, lit.atom.rhs]
                elif lit.truth is not None:
                    avs = [lit.truth]
                for a in avs:
                    if a.tags & {"isfinite", "isnan", "isinf"}:
                        for w in found:
                            if a.has_root(pfx + w):
                                found[w] = True
    for w, ok in found.items():
        rep.check(ok, "FINITE", f"validation|finite-{w}", f"a finiteness rejection over the {w} samples exists on the validation path", f"no rejection with isfinite/isnan over the {w} samples in Channel.validate_pulse / DMM.validate_pulse / Pulse.__init__: a NaN or infinite {w} passes every `>` comparison and is scheduled", E.where(ch_vp))

    # ------------------------------------------------------------ NONE
    fns = [f for f in P.all_functions() if f.module.name.startswith(("pulser.channels", "pulser.sequence", "pulser.pulse", "pulser.sampler"))]
    st = none_rule.check(E, rep, "NONE", OPT_CLASSES, fns, NONE_EXCEPTIONS)
    rep.floor("NONE", 15)
    return {"functions_analysed": len(fns), "none_rule": st, "public_entries_reaching_pulse_append": n_entries, "call_sites": getattr(E, "_n_call_events", 0)}
