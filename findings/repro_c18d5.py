"""C18 / strict switch_device of a parametrized sequence in EOM mode: an EOM
with custom_buffer_time=None and one with custom_buffer_time == 2*rise_time
are taken for the same configuration, but disable_eom_mode() does not do the
same thing with them (None: only waits for the last pulse to fall; defined:
always adds the whole buffer), so the built timelines differ.
"""
import sys
import warnings

import numpy as np

from pulser import Pulse, Register, Sequence
from pulser.channels import Rydberg
from pulser.channels.eom import RydbergBeam, RydbergEOM
from pulser.devices import VirtualDevice

warnings.simplefilter("ignore")

reg = Register.square(2, 6, prefix="q")


def device(name, custom_buffer_time):
    eom = RydbergEOM(
        mod_bandwidth=24,
        limiting_beam=RydbergBeam.RED,
        max_limiting_amp=40 * 2 * np.pi,
        intermediate_detuning=700 * 2 * np.pi,
        controlled_beams=(RydbergBeam.BLUE,),
        custom_buffer_time=custom_buffer_time,
    )
    return VirtualDevice(
        name=name,
        dimensions=2,
        rydberg_level=60,
        channel_objects=(
            Rydberg.Global(None, None, mod_bandwidth=4, eom_config=eom),
        ),
    )


dev_none = device("A", None)
ch = dev_none.channels["rydberg_global"]
dev_custom = device("B", 2 * ch.rise_time)  # same Channel._eom_buffer_time
# detuning_on for which the detuning off is exactly 0 (plain delays)
det_on = -float(ch.eom_config.detuning_off_options(5.0, 0.0)[0])


def slots(s):
    return [
        (sl.type if isinstance(sl.type, str) else "pulse", sl.ti, sl.tf)
        for sl in s._schedule["ryd"].slots
    ]


failed = False
for old_dev, new_dev in ((dev_none, dev_custom), (dev_custom, dev_none)):
    seq = Sequence(reg, old_dev)
    seq.declare_channel("ryd", "rydberg_global")
    dur = seq.declare_variable("dur", dtype=int)
    seq.enable_eom_mode("ryd", 5.0, det_on, 0.0)
    seq.add_eom_pulse("ryd", dur, 0.0)
    seq.delay(300, "ryd")
    seq.disable_eom_mode("ryd")
    seq.add(Pulse.ConstantPulse(100, 1, 0, 0), "ryd")
    label = (
        f"custom_buffer_time {old_dev.channels['rydberg_global'].eom_config.custom_buffer_time}"
        f" -> {new_dev.channels['rydberg_global'].eom_config.custom_buffer_time}"
    )
    try:
        new_seq = seq.switch_device(new_dev, strict=True)
    except Exception as e:  # raising is allowed by the property
        print(f"[{label}] raised {type(e).__name__}: {e}")
        continue
    old, new = slots(seq.build(dur=100)), slots(new_seq.build(dur=100))
    print(f"[{label}] strict switch returned; after build(dur=100):")
    print("   original:", old)
    print("   switched:", new)
    failed |= old != new

if failed:
    print("FAIL: strict=True returned a sequence that builds another timeline")
    sys.exit(1)
print("PASS")
