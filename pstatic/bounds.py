"""Symbolic bounds over the normal form (pstatic/sym.py): a small order prover.

``ge(t, b, facts)`` tries to *prove* ``t >= b`` for terms built from conditionals, ``min`` / ``max`` /
``np.clip``, constants and opaque leaves, using the comparison facts of the enclosing conditions (the test of a
conditional is a fact in its first arm, its negation in the second) and the axioms the caller supplies.  It is a
sound, incomplete abstract domain ("symbolic lower/upper bound sets"): a ``True`` is a proof; ``False`` means
"not provable with these rules".  ``in_fragment`` tells whether a term stays inside the constructs the prover
understands, so that a rule can decline (rather than alarm) on code written with other constructs.
"""
from __future__ import annotations

from typing import Iterable

from . import sym
from .sym import Term

ZERO = ("const", 0)


def unwrap(t: Term) -> Term:
    """Object identities and int()/float() conversions are transparent for ordering."""
    while True:
        if t[0] == "obj":
            t = t[2]
        elif t[0] == "call" and t[1] in (("name", "int"), ("name", "float")) and len(t[2]) == 1 and not t[3]:
            t = t[2][0]
        else:
            return t


def _num(t: Term):
    if t[0] == "const" and isinstance(t[1], (int, float)) and not isinstance(t[1], bool):
        return t[1]
    return None


def _minmax(t: Term):
    """('max'|'min', args) for max()/min()/np.maximum/np.minimum/np.clip terms."""
    if t[0] != "call" or t[3]:
        return None
    f = t[1]
    nm = f[1] if f[0] == "name" else f[2] if f[0] == "attr" else None
    if nm in ("max", "maximum") and len(t[2]) >= 2:
        return "max", tuple(t[2])
    if nm in ("min", "minimum") and len(t[2]) >= 2:
        return "min", tuple(t[2])
    if nm == "clip" and len(t[2]) == 3:
        x, lo, hi = t[2]
        # clip(x, lo, hi) == min(max(x, lo), hi)
        return "min", (("call", ("name", "max"), (x, lo), ()), hi)
    return None


def facts_of(cond: Term) -> list[tuple[Term, Term]]:
    """(lo, hi) pairs with lo <= hi implied by a condition (strictness dropped)."""
    out = []
    for x in sym.conj_of(cond):
        if x[0] == "cmp" and x[1] in ("Lt", "LtE", "Eq"):
            out.append((x[2], x[3]))
            if x[1] == "Eq":
                out.append((x[3], x[2]))
        elif x[0] == "cmp" and x[1] in ("Gt", "GtE"):
            out.append((x[3], x[2]))
    return out


def _contradictory(F: frozenset) -> bool:
    """lo <= hi and hi <= lo for two distinct numeric constants."""
    for lo, hi in F:
        a, b = _num(lo), _num(hi)
        if a is not None and b is not None and a > b:
            return True
    return False


class Prover:
    def __init__(self, axioms: Iterable[tuple[Term, Term]] = ()):
        self.axioms = frozenset(axioms)
        self.memo: dict = {}

    def ge(self, t: Term, b: Term, F: frozenset = frozenset(), depth: int = 0) -> bool:
        key = (t, b, F)
        if key in self.memo:
            return self.memo[key]
        self.memo[key] = False  # cycles do not prove anything
        r = self._ge(t, b, F | self.axioms, depth)
        self.memo[key] = r
        return r

    def _ge(self, t: Term, b: Term, F: frozenset, depth: int) -> bool:
        if depth > 12:
            return False
        t, b = unwrap(t), unwrap(b)
        if t == b:
            return True
        x, y = _num(t), _num(b)
        if x is not None and y is not None:
            return x >= y
        # a fact about the whole term (the clamp idiom `x if 0 <= x else 0` tests the unsplit x)
        for lo, hi in F:
            if hi == t and lo != t and (lo == b or (_num(lo) is not None and _num(b) is not None and _num(lo) >= _num(b))):
                return True
            if lo == b and hi != b and hi == t:
                return True
        # case split on conditionals (the test, or its negation, is a fact of the arm)
        if t[0] == "ifexp":
            return self._arm(t[2], b, F, t[1], depth, True) and self._arm(t[3], b, F, sym.mk_not(t[1]), depth, True)
        if b[0] == "ifexp":
            return self._arm(b[2], t, F, b[1], depth, False) and self._arm(b[3], t, F, sym.mk_not(b[1]), depth, False)
        mm = _minmax(t)
        if mm is not None:
            kind, args = mm
            if (any if kind == "max" else all)(self.ge(a, b, F - self.axioms, depth + 1) for a in args):
                return True
        mb = _minmax(b)
        if mb is not None:
            kind, args = mb
            if (all if kind == "max" else any)(self.ge(t, a, F - self.axioms, depth + 1) for a in args):
                return True
        # transitivity through one fact
        for lo, hi in F:
            if hi == t and lo != t and self.ge(lo, b, F - self.axioms, depth + 1):
                return True
            if lo == b and hi != b and self.ge(t, hi, F - self.axioms, depth + 1):
                return True
        return False

    def _arm(self, arm: Term, other: Term, F: frozenset, cond: Term, depth: int, arm_is_upper: bool) -> bool:
        F2 = frozenset(F | set(facts_of(cond)))
        if _contradictory(F2) or self._infeasible(F2, cond):
            return True
        F2 = F2 - self.axioms
        return self.ge(arm, other, F2, depth + 1) if arm_is_upper else self.ge(other, arm, F2, depth + 1)

    def _infeasible(self, F: frozenset, cond: Term) -> bool:
        return False

    def le(self, t: Term, b: Term, F: frozenset = frozenset()) -> bool:
        return self.ge(b, t, F)


def in_fragment(t: Term, leaves: set, depth: int = 0) -> bool:
    """The value of ``t`` is built only from conditionals, min/max/clip and terms of ``leaves`` / numeric constants
    (tests of conditionals may be anything)."""
    t = unwrap(t)
    if t in leaves or _num(t) is not None:
        return True
    if t[0] == "ifexp":
        return in_fragment(t[2], leaves, depth + 1) and in_fragment(t[3], leaves, depth + 1)
    mm = _minmax(t)
    if mm is not None:
        return all(in_fragment(a, leaves, depth + 1) for a in mm[1])
    return False
