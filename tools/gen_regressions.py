#!/usr/bin/env python3
"""Stores, for every repaired defect of known_findings.json (status "fixed"), the change that brings it back:
`git revert --no-commit <fix commit>` in a scratch worktree of /repo's HEAD -> seeded/REGR-<commit>/patch.diff.

A regression variant is kept only if (a) the revert merges cleanly on HEAD and (b) the checks report it (the
expected property at least) -- what they report goes to meta.json, like for the agents' seeded changes, so the
thorough tier replays it and fails (selftest-miss) if a later edit of the rules stops catching the defect.
The repro script of the finding is recorded as the demo (it exits 1 with the variant applied by construction of the
fix: it failed before the fix commit).  Nothing of /repo's working tree is touched."""
import json
import os
import subprocess
import sys
import tempfile

REPO, VERIF = "/repo", "/verif"


def sh(cmd, cwd):
    p = subprocess.run(cmd, shell=True, cwd=cwd, capture_output=True, text=True)
    return p.returncode, p.stdout + p.stderr


def main():
    kf = json.load(open(os.path.join(VERIF, "known_findings.json")))["findings"]
    fixed = {}
    for f in kf:
        if f.get("status") == "fixed" and f.get("commit"):
            fixed.setdefault(f["commit"], []).append(f)
    wt = tempfile.mkdtemp(prefix="regrwt_", dir="/tmp")
    os.rmdir(wt)
    rc, o = sh(f"git worktree add -q --detach {wt} HEAD", REPO)
    assert rc == 0, o
    kept = skipped = 0
    try:
        for commit, fs in sorted(fixed.items()):
            name = f"REGR-{commit[:8]}"
            out = os.path.join(VERIF, "seeded", name)
            sh("git reset -q --hard HEAD && git clean -fdq", wt)
            rc, o = sh(f"git revert --no-commit {commit}", wt)
            if rc != 0:
                sh("git revert --abort", wt)
                sh("git reset -q --hard HEAD", wt)
                print(f"skip {name}: the revert conflicts with later commits")
                skipped += 1
                continue
            rc, diff = sh("git diff HEAD", wt)
            sh("git reset -q --hard HEAD", wt)
            if not diff.strip():
                skipped += 1
                continue
            tmp = os.path.join("/tmp", name + ".diff")
            open(tmp, "w").write(diff)
            rc, o = sh(f"python3-vt tools/eval_patch.py {tmp}", VERIF)
            os.remove(tmp)
            try:
                rb = json.loads(o.strip().splitlines()[-1]).get("reported_by", {})
            except Exception:
                rb = {}
            props = {f["property"] for f in fs}
            hit = {p: v for p, v in rb.items() if v.get("rc") == 1}
            if not (props & set(hit)):
                print(f"skip {name}: not reported for {sorted(props)} (reported by {sorted(hit)})")
                skipped += 1
                continue
            os.makedirs(out, exist_ok=True)
            open(os.path.join(out, "patch.diff"), "w").write(diff)
            meta = {
                "name": name,
                "property": sorted(props)[0],
                "kind": "regression: revert of the fix: commit " + commit,
                "what_fails": [f["what"] for f in fs],
                "demo": [f.get("repro") for f in fs if f.get("repro")],
                "reported_by": {p: {"exit": 1, "reports": v["lines"]} for p, v in hit.items()},
                "confirmed": True,
            }
            json.dump(meta, open(os.path.join(out, "meta.json"), "w"), indent=1)
            kept += 1
            print(f"kept {name}: {sorted(hit)}")
    finally:
        sh(f"git worktree remove --force {wt}", REPO)
        sh("git worktree prune", REPO)
    print({"kept": kept, "skipped": skipped})


if __name__ == "__main__":
    main()
