"""Small helpers shared by the FLOW-style rule files."""
from __future__ import annotations

import ast
from typing import Iterator, Optional

from ..absval import AV, abstractor
from ..engine import Engine
from ..flow import Event, FunctionFlow, Node
from ..guards import GuardAnalysis, GuardSpec
from ..model import AnalysisError, FunctionInfo, dotted, norm


def calls_to(E: Engine, f: FunctionInfo, *targets: FunctionInfo) -> list[tuple[Node, Event]]:
    fl = E.flow(f)
    out = []
    tset = set(id(t) for t in targets)
    for node, _i, e in fl.all_events():
        if e.kind == "call" and any(id(c.innermost()) in tset for c, _m in e.callees):
            out.append((node, e))
    return out


def one_call(E: Engine, f: FunctionInfo, target: FunctionInfo) -> ast.Call:
    cs = calls_to(E, f, target)
    if not cs:
        raise AnalysisError(f"anchor: {f.short} no longer calls {target.short}")
    return cs[0][1].node  # type: ignore[return-value]


def arg_of(call: ast.Call, callee: FunctionInfo, name: str, bound: bool = True) -> Optional[ast.AST]:
    """Argument expression bound to parameter ``name`` of ``callee`` at ``call``."""
    for k in call.keywords:
        if k.arg == name:
            return k.value
    params = callee.params
    if bound and params and callee.cls is not None and callee.kind != "staticmethod":
        params = params[1:]
    if name in params:
        i = params.index(name)
        if i < len(call.args) and not any(isinstance(a, ast.Starred) for a in call.args[: i + 1]):
            return call.args[i]
    return None


def av(E: Engine, f: FunctionInfo, e: ast.AST) -> AV:
    return abstractor(E.flow(f)).av(e)


def never(fl, x) -> bool:  # noqa
    return False


def must_pass(E: Engine, f: FunctionInfo, *targets: FunctionInfo) -> bool:
    """Every path from entry to the normal exit of ``f`` passes a call resolving only to ``targets``."""
    tset = set(id(t) for t in targets)

    def est(fl: FunctionFlow, e: Event) -> bool:
        return e.kind == "call" and bool(e.callees) and all(id(c.innermost()) in tset for c, _m in e.callees)

    ga = GuardAnalysis(E, GuardSpec("pass", never, est), lambda a, b, c: False)
    return ga.run(E.R.effective(f))[1]


def returns(f: FunctionInfo) -> list[ast.Return]:
    out = []
    stack = list(f.node.body)
    while stack:
        n = stack.pop()
        if isinstance(n, (ast.FunctionDef, ast.AsyncFunctionDef, ast.ClassDef, ast.Lambda)):
            continue
        if isinstance(n, ast.Return) and n.value is not None:
            out.append(n)
        stack.extend(ast.iter_child_nodes(n))
    return out


def own_nodes(f: FunctionInfo) -> Iterator[ast.AST]:
    stack = list(ast.iter_child_nodes(f.node))
    while stack:
        n = stack.pop()
        if isinstance(n, (ast.FunctionDef, ast.AsyncFunctionDef, ast.ClassDef)):
            continue
        yield n
        stack.extend(ast.iter_child_nodes(n))


def strip_prefixes(roots) -> set:
    out = set()
    for r in roots:
        while r.startswith(("idx<-", "arg<-", "cond<-")):
            r = r.split("<-", 1)[1]
        out.add(r)
    return out


def linear_factor(e: ast.AST) -> tuple:
    """Flatten a product/quotient: (numeric constant factor, sorted tuple of the other factors' normalised text).

    0.5*a*b, a*b/2, a*0.5*b, -(a*b)*0.5*-1 ... all give (0.5, ('a','b')); a divisor x appears as '1/(x)'.
    """
    num = [1.0 + 0j]
    rest: list[str] = []

    def walk(n: ast.AST, inv: bool) -> None:
        if isinstance(n, ast.BinOp) and isinstance(n.op, ast.Mult):
            walk(n.left, inv)
            walk(n.right, inv)
        elif isinstance(n, ast.BinOp) and isinstance(n.op, ast.Div):
            walk(n.left, inv)
            walk(n.right, not inv)
        elif isinstance(n, ast.UnaryOp) and isinstance(n.op, ast.USub):
            num[0] *= -1
            walk(n.operand, inv)
        elif isinstance(n, ast.UnaryOp) and isinstance(n.op, ast.UAdd):
            walk(n.operand, inv)
        elif isinstance(n, ast.Constant) and isinstance(n.value, (int, float, complex)) and not isinstance(n.value, bool):
            num[0] = num[0] / n.value if inv else num[0] * n.value
        elif isinstance(n, ast.Call) and (dotted(n.func) or "").split(".")[-1] == "cast" and len(n.args) == 2:
            walk(n.args[1], inv)
        else:
            t = norm(n)
            rest.append(f"1/({t})" if inv else t)

    walk(e, False)
    v = num[0]
    v = v.real if abs(v.imag) < 1e-15 else v
    return (v, tuple(sorted(rest)))
