"""Interprocedural must-pass-through ("typestate guard") analysis (DESIGN 3: DOM-GUARD).

Question answered: starting at the entry of a callable with the guard fact
``False``, is there a path to an event satisfying ``target`` on which no
guard-establishing construct has been passed?
"""
from __future__ import annotations

import ast
from dataclasses import dataclass
from typing import Callable, Optional

from .engine import Engine, event_desc
from .flow import Event, FunctionFlow, Node
from .model import FunctionInfo, dotted, norm
from .resolve import Callable_


def always_raises(body: list[ast.stmt]) -> bool:
    if not body:
        return False
    last = body[-1]
    if isinstance(last, ast.Raise):
        return True
    if isinstance(last, ast.If):
        return always_raises(last.body) and bool(last.orelse) and always_raises(last.orelse)
    return False


def cond_calls(test: ast.AST) -> list[tuple[bool, ast.Call]]:
    """(polarity, call) for tests of the form  f(..)  /  not f(..)  /  conjunction members are not split."""
    if isinstance(test, ast.UnaryOp) and isinstance(test.op, ast.Not):
        return [(not p, c) for p, c in cond_calls(test.operand)]
    if isinstance(test, ast.Call):
        return [(True, test)]
    return []


@dataclass
class GuardSpec:
    name: str
    # does passing this CFG node establish the fact (for the fall-through / surviving branch)?
    node_establishes: Callable[[FunctionFlow, Node], bool]
    # does completing this event establish the fact?
    event_establishes: Callable[[FunctionFlow, Event], bool]


def reject_if_call(E: Engine, fn_qual_names: set[str], polarity: bool) -> Callable[[FunctionFlow, Node], bool]:
    """Node predicate: ``if <pol> f(...): raise``  (or the mirrored else-form) with f in the given set.

    polarity=True : the call is rejected when f(...) is true  -> fact "not f" holds afterwards.
    """

    def pred(fl: FunctionFlow, node: Node) -> bool:
        st = node.stmt
        if node.kind != "test" or not isinstance(st, ast.If):
            return False
        for pol, call in cond_calls(st.test):
            cs, _ = E.R.callees(call, fl.ctx)
            names = {c.innermost().qualname for c, _m in cs}
            if not names or not names <= fn_qual_names:
                continue
            if pol == polarity and always_raises(st.body):
                return True
            if pol != polarity and st.orelse and always_raises(st.orelse):
                return True
        return False

    return pred


class GuardAnalysis:
    def __init__(self, E: Engine, spec: GuardSpec, target: Callable[[FunctionFlow, Node, Event], bool]):
        self.E = E
        self.spec = spec
        self.target = target
        self._memo: dict[str, tuple[list, bool]] = {}
        self._busy: set[str] = set()

    def run(self, c: Callable_) -> tuple[list[dict], bool]:
        """(unguarded target events reachable with fact False at entry, fact at normal exit)."""
        k = c.key
        if k in self._memo:
            return self._memo[k]
        if k in self._busy:
            return [], False  # recursion: assume nothing new (the outer frame reports)
        self._busy.add(k)
        try:
            res = self._run(c)
        finally:
            self._busy.discard(k)
        self._memo[k] = res
        return res

    def _run(self, c: Callable_) -> tuple[list[dict], bool]:
        E = self.E
        fl = E.flow(c)
        nodes = fl.nodes
        reach = {fl.entry.id} | fl.reachable_from(fl.entry.id)
        IN = {i: True for i in reach}
        OUT = {i: True for i in reach}
        IN[fl.entry.id] = False
        viol: dict[tuple[int, int], dict] = {}

        def transfer(nid: int, fact: bool, record: bool) -> bool:
            node = nodes[nid]
            for i, e in enumerate(node.events):
                if not fact and self.target(fl, node, e):
                    if record:
                        viol[(nid, i)] = {"function": c.fn.short, "event": event_desc(e), "where": E.where(c.fn, e.node), "via": []}
                if e.kind in ("call", "getprop", "setprop"):
                    if self.spec.event_establishes(fl, e):
                        fact = True
                        continue
                    if not fact:
                        all_est = True
                        for cal, _m in e.callees:
                            if _m == "ctor":
                                # writes inside a constructor initialise a fresh object
                                all_est = False
                                continue
                            sub_v, sub_exit = self.run(cal)
                            if record:
                                for v in sub_v:
                                    kk = (nid, i, v["function"], v["event"])
                                    viol[kk] = dict(v, via=[c.fn.short] + v.get("via", []))  # type: ignore[index]
                            all_est = all_est and sub_exit
                        if e.callees and all_est:
                            fact = True
            if self.spec.node_establishes(fl, node):
                fact = True
            return fact

        changed = True
        order = sorted(reach)
        it = 0
        while changed and it < 100:
            changed = False
            it += 1
            for nid in order:
                if nid != fl.entry.id:
                    ps = [p for p in nodes[nid].pred if p in reach]
                    new_in = all(OUT[p] for p in ps) if ps else True
                else:
                    new_in = False
                out = transfer(nid, new_in, False)
                if new_in != IN[nid] or out != OUT[nid]:
                    IN[nid] = new_in
                    OUT[nid] = out
                    changed = True
        for nid in order:
            transfer(nid, IN[nid], True)
        exit_fact = IN.get(fl.exit.id, True) if fl.exit.id in reach else True
        return list(viol.values()), exit_fact


# --------------------------------------------------------------------------
# GUARD-STABLE: a typestate guard must not read state written earlier in the same public call


def reads_of(E: Engine, c: Callable_, _seen: Optional[set] = None) -> set:
    """State regions (owner, field) read -- attribute loads and hasattr(x, "f") -- by a callable, transitively."""
    _seen = _seen if _seen is not None else set()
    if c.key in _seen:
        return set()
    _seen.add(c.key)
    cache = getattr(E, "_reads_cache", None)
    if cache is None:
        cache = E._reads_cache = {}  # type: ignore[attr-defined]
    fl = E.flow(c)
    out: set = set()
    for n in ast.walk(c.fn.node):
        if isinstance(n, ast.Attribute) and isinstance(n.ctx, ast.Load):
            for owner, fld in fl.field_of(n):
                if E.is_state_region(owner):
                    out.add((owner, fld))
        if isinstance(n, ast.Call) and (dotted(n.func) or "") == "hasattr" and len(n.args) == 2 and isinstance(n.args[1], ast.Constant):
            for cl in E.R.classes_of(E.R.type_of(n.args[0], fl.ctx)):
                if E.is_state_region(cl.qualname):
                    out.add((cl.qualname, n.args[1].value))
    for _n, _i, e in fl.all_events():
        for cal, _m in e.callees:
            out |= reads_of(E, cal, _seen)
    return out


def writes_before_guard(E: Engine, c: Callable_, spec: GuardSpec) -> list[dict]:
    """For every guard test reachable from the entry of ``c``: the state regions that may already have been
    written (in this very call) when the guard is evaluated."""
    results: list[dict] = []
    seen: set = set()

    def run(cal: Callable_, w_in: frozenset, chain: tuple) -> frozenset:
        key = (cal.key, w_in)
        if key in seen or len(chain) > 12:
            return w_in
        seen.add(key)
        fl = E.flow(cal)
        nodes = fl.nodes
        reach = {fl.entry.id} | fl.reachable_from(fl.entry.id)
        IN = {i: frozenset() for i in reach}
        OUT = {i: frozenset() for i in reach}

        def transfer(nid: int, w: frozenset, record: bool) -> frozenset:
            node = nodes[nid]
            if record and spec.node_establishes(fl, node):
                # the test's own events are evaluated first
                w_at = w
                for e in node.events:
                    sw, _r = E.S.event_effects(fl, node, e)
                    w_at = w_at | frozenset((x.owner, x.field) for x in E.state_writes(sw) if x.root != "fresh")
                results.append({"function": cal.fn.short, "via": list(chain) + [cal.fn.short], "written": w, "where": E.where(cal.fn, node.stmt)})
            for e in node.events:
                if e.kind in ("call", "getprop", "setprop"):
                    for sub, m in e.callees:
                        if m != "ctor" and record:
                            run(sub, w, chain + (cal.fn.short,))
                sw, _r = E.S.event_effects(fl, node, e)
                w = w | frozenset((x.owner, x.field) for x in E.state_writes(sw) if x.root != "fresh")
            return w

        changed = True
        it = 0
        order = sorted(reach)
        while changed and it < 50:
            changed = False
            it += 1
            for nid in order:
                if nid == fl.entry.id:
                    new_in = w_in
                else:
                    ps = [p for p in nodes[nid].pred if p in reach]
                    new_in = frozenset().union(*(OUT[p] for p in ps)) if ps else frozenset()
                out = transfer(nid, new_in, False)
                if new_in != IN[nid] or out != OUT[nid]:
                    IN[nid], OUT[nid] = new_in, out
                    changed = True
        for nid in order:
            transfer(nid, IN[nid], True)
        return OUT.get(fl.exit.id, w_in)

    E.prepare_summaries()
    run(c, frozenset(), ())
    return results
