"""C16 -- waveforms and pulses honour their defining contracts (narrow)."""
from __future__ import annotations

import ast

from ..absval import abstractor
from ..engine import Engine
from ..guardspec import rejection_conjunctions
from ..model import AnalysisError, ClassInfo, FunctionInfo, dotted, norm
from ..report import Report, load_table
from .common import av, own_nodes, returns, strip_prefixes

EXPLANATION = (
    "SIB: for every Waveform subclass the defining parameters (constructor parameters, mapped to the attributes __init__ stores them in) are forwarded identically by change_duration, __mul__, _to_dict "
    "and _to_abstract_repr: same attributes, same order, with only the documented substitution (new_duration for the duration; the linearly scaling parameters -- value / start,stop / area / values / samples -- "
    "multiplied by the factor, shape parameters such as beta and times untouched). Base operations: samples returns a copy, __neg__ = self * -1, __truediv__ = self * (1/other) with a zero rejection, __eq__ compares durations "
    "and sample-wise closeness, indices are range-checked, and both bounds of the slice returned by _check_slice are provably >= 0 on every path (symbolic-bounds prover, pstatic/bounds.py: a negative bound would wrap around). GUARD: Waveform.__init__ rejects non-positive durations; Pulse.__init__ rejects negative amplitude and unequal durations and reduces both phases modulo 2*pi. "
    "DIV0: under the class invariant _duration >= 1 (derived from the constructor's rejection) no denominator of the form (_duration - c) can be zero unguarded. "
    "NOT decided: areas, maxima, interpolation values (numeric contracts of Blackman/Kaiser/Interpolated waveforms)."
    ' Round 4 (added): SIB -- every quantity KaiserWaveform.from_max_val compares with max_val is the same expression of the tried window (max(window) * 1000 * area / sum(window)); the sample index of an interpolation point is round(t * (duration - 1)), not a truncation.'
    ' Round 5 (added): the Blackman window that divides the area is never all zeros; the stored phase / post_phase_shift are strictly below 2pi (double modulo); ArbitraryPhase differentiates only when the duration is not 1; CustomWaveform copies its samples; the exhaustive branch of KaiserWaveform.from_max_val is taken when one sample already fits.'
    ' Round 6 (added after the fifth independent round of breaking changes): the all-zero test of the Blackman window is made on the window that is stored (nothing is applied to it after the test); BlackmanWaveform.from_max_val lengthens the window only under a strict scaling > max_val.'
    ' Round 7 (added after the sixth, smaller round of breaking changes): InterpolatedWaveform._samples bounds precision - log10(range) with min(..., 9) before converting it to int (log10(0) = -inf for an all-zero waveform).'
)
ASSUMPTIONS = ["the scaling spec (which parameters are linear) is written from the property statement in tables/waveforms_c16.json"]

WF = "pulser.waveforms"


def _slice_leaves(t) -> set:
    """Leaves of a slice-bound term: everything that is not a conditional or a min/max/clip call."""
    from .. import bounds, sym

    out = set()

    def walk(x):
        x = bounds.unwrap(x)
        if x[0] == "ifexp":
            walk(x[2]); walk(x[3])
            return
        mm = bounds._minmax(x)
        if mm is not None:
            for a in mm[1]:
                walk(a)
            return
        if x[0] != "call":
            out.add(x)

    walk(t)
    return out


def _param_attrs(E: Engine, c: ClassInfo) -> dict[str, set]:
    """constructor parameter -> attribute that stores it (from __init__: self._x = f(param))."""
    init = E.P.lookup_method(c, "__init__")[0]
    out: dict[str, str] = {}
    params = init.params[1:]
    ab = abstractor(E.flow(init))
    for n in own_nodes(init):
        if isinstance(n, (ast.Assign, ast.AnnAssign)):
            t = n.targets[0] if isinstance(n, ast.Assign) else n.target
            if isinstance(t, ast.Attribute) and isinstance(t.value, ast.Name) and t.value.id == "self" and n.value is not None:
                roots = strip_prefixes(ab.av(n.value).roots)
                for p in params:
                    if p in roots:
                        out.setdefault(p, set()).add(t.attr)
    if "duration" in params and "duration" not in out:
        out["duration"] = {"_duration"}  # stored by Waveform.__init__
    return out


def run(E: Engine, rep: Report, tier: str) -> dict:
    P = E.P
    spec = load_table("waveforms_c16.json")["scaled"]
    base = P.cls(WF + ".Waveform")
    subs = [c for c in P.subclasses(base) if c.module.name == WF]
    n_cls = 0
    for c in sorted(subs, key=lambda k: k.name):
        if c.name == "CompositeWaveform":
            continue
        if c.name not in spec:
            rep.violation("SIB", f"{c.name}|in-spec", f"new Waveform subclass {c.name} has no scaling spec (tables/waveforms_c16.json)", E.where_mod(c.module.relpath, c.node))
            continue
        n_cls += 1
        init = P.lookup_method(c, "__init__")[0]
        params = [p for p in init.params[1:] if p not in ("interpolator_kwargs",)]
        vararg = init.node.args.kwarg.arg if init.node.args.kwarg else None
        pa = _param_attrs(E, c)
        scaled = set(spec[c.name])
        main = [p for p in params if p in pa and p != vararg]
        for mname in ("change_duration", "__mul__", "_to_dict", "_to_abstract_repr"):
            fs = [f for f in c.methods.get(mname, [])]
            if not fs:
                if mname == "change_duration":
                    rep.excepted("SIB", f"{c.name}.change_duration|absent", f"{c.name} does not support duration changes (base class raises NotImplementedError)", E.where_mod(c.module.relpath, c.node))
                continue
            f = fs[0]
            ab = abstractor(E.flow(f))
            call = None
            for r in returns(f):
                v = r.value
                if isinstance(v, ast.Call):
                    call = v
            if call is None:
                rep.violation("SIB", f"{c.name}.{mname}|returns-a-call", f"{c.name}.{mname} no longer returns a constructor / serialiser call", E.where(f))
                continue
            args = list(call.args)
            if mname in ("_to_dict",):
                args = args[1:]  # obj_to_dict(self, ...)
            if mname == "_to_abstract_repr":
                args = args[1:]  # abstract_repr(name, ...)
            kws = {k.arg: k.value for k in call.keywords if k.arg}
            # positional parameters of the constructor, in order
            pos_params = [p for p in main if p not in ("interpolator",)]
            bad = []
            for i, p in enumerate(pos_params):
                e = args[i] if i < len(args) else kws.get(p)
                if e is None:
                    if p in init.param_defaults() and mname != "_to_abstract_repr" and any(k.arg is None for k in call.keywords):
                        continue  # forwarded through **self._kwargs
                    if p in init.param_defaults() and mname == "_to_abstract_repr":
                        continue
                    bad.append(f"{p}: not forwarded")
                    continue
                v = ab.av(e)
                roots = strip_prefixes(v.roots)
                attrs = {"self." + a for a in pa[p]}
                attr = sorted(attrs)[0]
                alt = {"self._samples"} if c.name == "CustomWaveform" and p == "samples" else set()
                if p == "duration" and mname == "change_duration":
                    if "new_duration" not in roots or attrs & roots:
                        bad.append(f"duration: expected new_duration, got {norm(e)}")
                    continue
                if not (attrs | alt) & roots:
                    bad.append(f"{p}: expected {attr}, got {norm(e)}")
                    continue
                others = ({"self." + a for q, aa in pa.items() if q != p for a in aa} - attrs) & roots
                if others:
                    bad.append(f"{p}: mixes in {sorted(others)} ({norm(e)})")
                if mname == "__mul__":
                    if p in scaled and not ("Mult" in v.tags and "other" in roots):
                        bad.append(f"{p}: must be multiplied by the factor ({norm(e)})")
                    if p not in scaled and ("Mult" in v.tags or "other" in roots):
                        bad.append(f"{p}: must NOT be scaled ({norm(e)})")
                elif "Mult" in v.tags or "Add" in v.tags or "Sub" in v.tags:
                    bad.append(f"{p}: altered ({norm(e)})")
            rep.check(not bad, "SIB", f"{c.name}.{mname}|forwards-defining-parameters", f"forwards {pos_params} in constructor order", f"{c.name}.{mname} does not forward the defining parameters faithfully: {bad}", E.where(f, call))
            # the call constructs the same class
            if mname in ("change_duration", "__mul__"):
                rep.check((dotted(call.func) or "") == c.name, "SIB", f"{c.name}.{mname}|same-class", f"returns a {c.name}", f"{c.name}.{mname} returns {dotted(call.func)}", E.where(f, call))
    if n_cls < 6:
        rep.error(f"only {n_cls} waveform classes analysed (expected 6)")
    # a waveform that keeps extra construction options in a mapping (InterpolatedWaveform._kwargs: times, interpolator
    # and the interpolator's own options) hands the whole mapping to every copy it builds of itself
    from .. import sym as _symK
    from .symutil import S as _SK, unobj as _unK

    n_kw = 0
    for c in [base] + subs:
        has_kw = any(isinstance(n, ast.Attribute) and n.attr == "_kwargs" and isinstance(n.ctx, ast.Store) for n in ast.walk(c.node))
        if not has_kw:
            continue
        for nm_ in ("change_duration", "__mul__"):
            for f in c.methods.get(nm_, []):
                for l in _SK(E, f).logged("return"):
                    v = _unK(l.value) if l.value is not None else None
                    if v is None or v[0] != "call" or v[1] != ("name", c.name):
                        continue
                    n_kw += 1
                    whole = any(k == "**" and _unK(x) == ("attr", ("name", "self"), "_kwargs") for k, x in v[3])
                    rep.check(whole, "SIB", f"{c.name}.{nm_}|forwards-all-construction-options", "the copy is built with **self._kwargs", f"{c.name}.{nm_} rebuilds the waveform without `**self._kwargs` (passes {[k for k, _x in v[3]]}): options kept there (e.g. the interpolator's `kind`) are lost in the copy, so scaling / changing the duration changes the shape", E.where(f, l.node))
    if n_kw < 2:
        raise AnalysisError("anchor: the copies InterpolatedWaveform builds of itself (change_duration, __mul__) were not found")
    # KaiserWaveform.from_max_val tries durations and compares each candidate's peak with max_val: every quantity
    # compared with max_val (short exhaustive branch, first guess, stepping loop) is the same expression of the tried
    # window -- peak of the window times the area scaling -- whatever the duration variable
    from .. import sym as _symC
    from .symutil import mentions as _mentC, sh as _shC

    kf = E.method("pulser.waveforms.KaiserWaveform", "from_max_val")
    Skf = _SK(E, kf)

    def _abstract_window(t):
        def fn(x):
            if isinstance(x, tuple) and len(x) == 4 and x[0] == "call" and x[1] == ("attr", ("name", "np"), "kaiser") and x[2]:
                return ("call", x[1], (("name", "Q_duration"),) + tuple(x[2][1:]), x[3])
            return None
        return _symC.subst(t, fn)

    def _is_mv(t):
        # the (sign-normalised) maximum value: `max_val` or `-max_val if area < 0 else max_val`
        t = _unK(t)
        return t == ("name", "max_val") or (t[0] == "ifexp" and _unK(t[3]) == ("name", "max_val") and _mentC(t[2], "max_val"))

    cands = []
    carried_names = set()
    for l in Skf.logged("test"):
        for x in _symC.subterms(l.value):
            if x[0] == "cmp" and x[1] in ("Lt", "LtE", "Gt", "GtE") and (_is_mv(x[2]) != _is_mv(x[3])):
                cands.append((l, x[3] if _is_mv(x[2]) else x[2]))
            if x[0] == "add" and len(x) == 3 and any(_is_mv(_symC.mk_neg(y)) for y in x[1:]):
                other = [y for y in x[1:] if not _is_mv(_symC.mk_neg(y))]
                if len(other) == 1:
                    cands.append((l, other[0]))
    for l, c in list(cands):
        if c[0] == "carried":
            carried_names.add(c[1])
    for l in Skf.logged("assign"):
        if l.target is not None and l.target[0] == "name" and l.target[1] in carried_names and l.value is not None:
            cands.append((l, l.value))
    forms = {}
    for l, c in cands:
        if c[0] == "carried" or not _mentC(c, "kaiser"):
            continue  # (only quantities computed from a tried window are candidate peaks)
        forms.setdefault(_abstract_window(c), []).append(l)
    with_peak = [f_ for f_ in forms if any(t[0] == "call" and t[1][0] == "attr" and t[1][2] in ("max", "amax") for t in _symC.subterms(f_))]
    if len(cands) < 3 or not with_peak:
        raise AnalysisError(f"anchor: KaiserWaveform.from_max_val: candidate peaks compared with max_val not found ({len(cands)} comparison(s))")
    ref = max(with_peak, key=lambda f_: len(forms[f_]))
    order = {id(l): i_ for i_, (l, c) in enumerate((l, c) for l, c in cands if c[0] != "carried")}
    for f_, ls in forms.items():
        for l in ls:
            rep.check(f_ == ref, "SIB", f"KaiserWaveform.from_max_val|candidate-peak-same-expression|comparison{order.get(id(l), 0)}", "compared with max_val: max(window) * 1000 * area / sum(window)",
                      f"KaiserWaveform.from_max_val compares `{_shC(f_, 120)}` with max_val here but `{_shC(ref, 120)}` elsewhere: the peak of a Kaiser window is max(window) * scaling (even-length windows never reach 1), so this branch rejects durations whose peak is within the limit and the result is no longer the closest to max_val", E.where(kf, l.node))
    # InterpolatedWaveform: a data point given at the relative time t sits on the nearest sample, round(t * (duration - 1))
    ii = E.method("pulser.waveforms.InterpolatedWaveform", "__init__")
    dp = [l for l in _SK(E, ii).logged("store") if l.target is not None and l.target[0] == "attr" and l.target[2] == "_data_pts"]
    if not dp:
        raise AnalysisError("anchor: InterpolatedWaveform.__init__ no longer stores _data_pts")
    for l in dp:
        v = l.value
        def _about_times(t):
            return _mentC(t, "_times") or _mentC(t, "times")
        rounds = [t for t in _symC.subterms(v) if t[0] == "call" and ((t[1] == ("name", "round")) or (t[1][0] == "attr" and t[1][2] in ("round", "rint", "around"))) and t[2] and _about_times(t[2][0]) or (t[0] == "call" and t[1][0] == "attr" and t[1][2] in ("round",) and _about_times(t[1][1]))]
        truncs = [t for t in _symC.subterms(v) if t[0] == "call" and ((t[1] in (("name", "int"),) and t[2] and _about_times(t[2][0])) or (t[1][0] == "attr" and t[1][2] in ("floor", "trunc", "ceil", "fix") and t[2] and _about_times(t[2][0])) or (t[1][0] == "attr" and t[1][2] == "astype" and _about_times(t[1][1]) and t[2] and t[2][0] in (("name", "int"), ("attr", ("name", "np"), "int64"), ("const", "int"))))]
        truncs = [t for t in truncs if not any(_symC.contains(t, r) for r in rounds)]
        if rounds and not truncs:
            rep.ok("SIB", "InterpolatedWaveform.__init__|data-points-on-nearest-sample", "sample index of a data point = round(t * (duration - 1))", E.where(ii, l.node))
        elif truncs:
            rep.violation("SIB", "InterpolatedWaveform.__init__|data-points-on-nearest-sample", f"the sample index of an interpolation point is `{_shC(truncs[0], 100)}` (truncation / directed rounding, no round()): a point at 28.9999999 (0.29 * 100 in floating point) lands on sample 28 instead of 29, so the waveform no longer takes the given values at the documented points", E.where(ii, l.node))
        else:
            rep.excepted("SIB", "InterpolatedWaveform.__init__|data-points-on-nearest-sample", "neither a rounding nor a truncating conversion of the times was recognised: not decided", E.where(ii, l.node))
    rep.floor("SIB", 28)
    # ---- round 5 (independent audit): boundary durations and aliases ----
    # (a) a Blackman window can be identically zero (np.blackman(2)): the normalised window that divides the area is never
    #     all zeros -- it is replaced under a `np.any(window)` test
    bi = E.fn("pulser.waveforms.BlackmanWaveform.__init__")
    ns_ = [l for l in _SK(E, bi, inline=False).logged("store") if l.target is not None and l.target[0] == "attr" and l.target[2] == "_norm_samples"]
    if not ns_:
        raise AnalysisError("anchor: BlackmanWaveform.__init__ no longer stores _norm_samples")
    for l in ns_:
        guarded = any(t[0] == "ifexp" and any(u[0] == "call" and u[1][0] == "attr" and u[1][2] in ("any", "all", "sum", "count_nonzero") for u in _symC.subterms(t[1])) for t in _symC.subterms(l.value))
        rep.check(guarded, "DIV0", "BlackmanWaveform.__init__|window-never-all-zero", "the normalised window is replaced when it is identically zero", "BlackmanWaveform divides the area by the sum of np.clip(np.blackman(duration), 0, inf), which is [0, 0] for duration 2: BlackmanWaveform(2, area) (also reached through change_duration(2)) is all NaN, and Pulse accepts it because nan < 0 is False", E.where(bi, l.node))
        # ... and the test is made on the window that is stored: whatever is applied to the window after the test
        #     (np.clip turns np.blackman(2) = [-1.4e-17, -1.4e-17] into [0, 0]) can make it all zero again
        core = _unK(l.value)
        while core[0] == "call" and len(core[2]) >= 1 and (core[1] in (("attr", ("name", "pm"), "AbstractArray"), ("attr", ("name", "np"), "asarray"), ("attr", ("name", "np"), "array"))):
            core = _unK(core[2][0])
        if guarded:
            tested = [u[2][0] for t in ([core] if core[0] == "ifexp" else []) for u in _symC.subterms(t[1]) if u[0] == "call" and u[1][0] == "attr" and u[1][2] in ("any", "all", "sum", "count_nonzero") and u[2]]
            same = core[0] == "ifexp" and any(_unK(w) in (_unK(core[2]), _unK(core[3])) for w in tested)
            rep.check(same, "DIV0", "BlackmanWaveform.__init__|all-zero-test-on-the-stored-window", "stored window = W if any(W) else <flat>", f"the stored window is `{_shC(core, 140)}`: the all-zero test is not made on the window that is stored (it is transformed after the test), so np.blackman(2) = [-1.4e-17, -1.4e-17] passes the test and is then clipped to [0, 0] -- BlackmanWaveform(2, area) is all NaN", E.where(bi, l.node))
    # (a') BlackmanWaveform.from_max_val lengthens the window only while max_val is SURPASSED: a window whose peak lands
    #      exactly on max_val does not exceed it, and one more nanosecond gives a peak further from it
    bf = E.method("pulser.waveforms.BlackmanWaveform", "from_max_val")
    n_step = 0
    for l in _SK(E, bf, inline=False).logged("assign"):
        if not l.loops or l.target != ("name", "duration"):
            continue
        for x in _symC.conj_of(l.cond):
            inner = x[1] if x[0] == "not" else x
            if inner[0] != "cmp" or inner[1] not in ("Lt", "Gt", "LtE", "GtE") or not (_mentC(inner, "_scaling") and _mentC(inner, "max_val")):
                continue
            n_step += 1
            strict = (inner[1] in ("Lt", "Gt")) if x[0] != "not" else (inner[1] in ("LtE", "GtE"))
            rep.check(strict, "GUARD", "BlackmanWaveform.from_max_val|lengthened-only-while-max_val-is-surpassed", "the loop continues under scaling > max_val (strict)",
                      f"BlackmanWaveform.from_max_val lengthens the window under `{_shC(x, 100)}`: a window whose peak EQUALS max_val does not surpass it, so from_max_val(10, 0.84) returns 202 ns (peak 9.95) although 201 ns (peak exactly 10) fits -- the result is no longer as close to max_val as whole nanoseconds allow", E.where(bf, l.node))
    if n_step == 0:
        rep.excepted("GUARD", "BlackmanWaveform.from_max_val|lengthened-only-while-max_val-is-surpassed", "no loop lengthening the window under a comparison of _scaling with max_val was recognised: not decided", E.where(bf))
    # (a'') InterpolatedWaveform._samples rounds to a number of decimals derived from log10(value range): for an all-zero
    #       waveform that is +inf, which only min(..., 9) absorbs -- the bound is applied BEFORE the conversion to int
    isf = next((g for g in E.P.all_functions() if g.cls is not None and g.cls.name == "InterpolatedWaveform" and g.name == "_samples"), None)
    if isf is not None:
        ints = [t for l in _SK(E, isf, inline=False).log for v_ in (l.value,) if v_ is not None for t in _symC.subterms(v_) if t[0] == "call" and t[1] == ("name", "int") and len(t[2]) == 1 and _mentC(t[2][0], "log10")]
        seen_i = set()
        for t in ints:
            if t in seen_i:
                continue
            seen_i.add(t)
            a_ = _unK(t[2][0])
            rep.check(a_[0] == "call" and a_[1] == ("name", "min"), "DIV0", "InterpolatedWaveform._samples|decimals-bounded-before-int", "int(min(precision - log10(range), 9))",
                      f"`{_shC(t, 100)}` converts precision - log10(value_range) to int before it is bounded: for an identically zero waveform (wf * 0, InterpolatedWaveform(d, [0, 0])) log10(0) is -inf and int(inf) raises OverflowError, so the waveform has no samples at all", E.where(isf))
    # (b) the stored phase lies in [0, 2pi): `x % 2pi` of a tiny negative x rounds to 2pi itself, so the modulo is applied
    #     twice (or the result is otherwise brought below 2pi)
    pi_f = E.fn("pulser.pulse.Pulse.__init__")
    for l in _SK(E, pi_f, inline=False).calls("__setattr__"):
        if len(l.value[2]) < 3 or l.value[2][1] not in (("const", "phase"), ("const", "post_phase_shift")):
            continue
        v_ = _unK(l.value[2][2])
        twice = v_[0] == "bin" and v_[1] == "Mod" and _unK(v_[2])[0] == "bin" and _unK(v_[2])[1] == "Mod"
        other = any(t[0] == "ifexp" or (t[0] == "call" and t[1][0] == "attr" and t[1][2] in ("where", "nextafter")) for t in _symC.subterms(v_))
        rep.check(twice or other, "GUARD", f"Pulse.__init__|{l.value[2][1][1]}-strictly-below-2pi", "(x % 2pi) % 2pi", f"Pulse stores `{_shC(v_, 60)}`: the float result of x % (2*pi) for a tiny negative x is 2*pi itself (Pulse.ConstantPulse(10, 1, 0, -1e-17).phase == 2*pi; ArbitraryPhase with a ramp 0.1 -> 0.4 too), outside [0, 2pi)", E.where(pi_f, l.node))
    # (c) Pulse.ArbitraryPhase: the generic branch differentiates the phase samples (np.diff, then an edge pad): a
    #     one-sample waveform has an empty diff, so duration 1 takes the zero-detuning branch
    ap_f = E.fn("pulser.pulse.Pulse.ArbitraryPhase")
    r_ap = _SK(E, ap_f, inline=False).ret
    diff_conds = []
    def _walk_if(t, conds):
        if not isinstance(t, tuple) or not t:
            return
        if t[0] == "ifexp":
            _walk_if(t[2], conds + [t[1]])
            _walk_if(t[3], conds + [_symC.mk_not(t[1])])
            return
        if t[0] == "call" and t[1][0] == "attr" and t[1][2] == "diff":
            diff_conds.append(list(conds))
        for x in t:
            _walk_if(x, conds)
    _walk_if(r_ap, [])
    if not diff_conds:
        rep.excepted("GUARD", "Pulse.ArbitraryPhase|one-sample-phase-handled", "no np.diff of the phase samples found: not decided", E.where(ap_f))
    else:
        ok_d = all(any(_mentC(x, "duration") or _mentC(x, "len") for c_ in cs for x in _symC.conj_of(c_)) for cs in diff_conds)
        rep.check(ok_d, "GUARD", "Pulse.ArbitraryPhase|one-sample-phase-handled", "the diff branch is taken only when the duration is not 1", "Pulse.ArbitraryPhase differentiates and edge-pads the phase samples for every waveform that is not Constant/Ramp: a 1-sample Custom / Blackman / Kaiser phase waveform has an empty diff and raises ValueError (can't extend empty axis)", E.where(ap_f))
    # (d) a CustomWaveform owns its samples (AbstractArray(float64 ndarray) shares memory with the caller's array)
    ci = E.fn("pulser.waveforms.CustomWaveform.__init__")
    cs_ = [l for l in _SK(E, ci, inline=False).logged("store") if l.target is not None and l.target[0] == "attr" and l.target[2] == "_samples_arr"]
    if not cs_:
        raise AnalysisError("anchor: CustomWaveform.__init__ no longer stores _samples_arr")
    for l in cs_:
        copied = any(t[0] == "call" and ((t[1][0] == "attr" and t[1][2] in ("copy", "clone", "tolist")) or t[1] in (("attr", ("name", "np"), "array"), ("attr", ("name", "np"), "copy"))) for t in _symC.subterms(l.value))
        rep.check(copied, "ALIAS", "CustomWaveform.__init__|samples-copied", "the stored samples are a copy", f"CustomWaveform stores `{_shC(l.value, 60)}`: AbstractArray does not copy a float64 ndarray, so the waveform shares memory with the caller's array -- editing it afterwards changes the samples, the hash and already validated pulses", E.where(ci, l.node))
    # (e) KaiserWaveform.from_max_val: the stepping loop may only run downwards when some duration >= 1 fits -- when one
    #     sample already holds the area below max_val the exhaustive branch is taken (the loop would reach np.kaiser(0))
    ex_branch = [l for l in Skf.logged("test") if l.fn == kf.short and any(x[0] == "cmp" and _symC.contains(x, ("const", 11)) for x in _symC.subterms(l.value))]
    if not ex_branch:
        rep.excepted("GUARD", "KaiserWaveform.from_max_val|exhaustive-branch-when-one-sample-fits", "the `duration_guess < 11` test was not found: not decided", E.where(kf))
    for l in ex_branch[:1]:
        rep.check(l.value[0] == "or" and any(_is_mv(y) for x in l.value[1:] for y in (x[2:] if x[0] == "cmp" else ())), "GUARD", "KaiserWaveform.from_max_val|exhaustive-branch-when-one-sample-fits", "`duration_guess < 11 or 1000 * area <= max_val`", "the exhaustive search of KaiserWaveform.from_max_val is taken on the duration guess alone: with a large beta and an area one sample already holds below max_val the guess is >= 11, the downward loop runs to duration 0 and np.max(np.kaiser(0, beta)) raises (from_max_val(10, 0.0095, 250))", E.where(kf, l.node))

    # ------------------------------------------------------ base operations
    from .. import bounds, sym
    from .symutil import S, dnf, has, is_, sh, unobj

    smp = [f for f in base.methods["samples"] if f.kind == "property"][0]
    rs = S(E, smp).ret
    ok = rs is not None and (is_(rs, "Q_x.copy()") is not None or is_(rs, "np.array(Q_x)") is not None or is_(rs, "np.copy(Q_x)") is not None or is_(rs, "copy.copy(Q_x)") is not None or is_(rs, "copy.deepcopy(Q_x)") is not None)
    rep.check(ok, "BASE", "Waveform.samples|returns-copy", "samples returns a copy of the cached array", f"Waveform.samples returns `{sh(rs, 80)}`, no longer a copy: callers could edit the cached samples", E.where(smp))
    neg = base.methods["__neg__"][0]
    rn = S(E, neg).ret
    ok = rn is not None and (is_(rn, "self.__mul__(-1)") is not None or is_(rn, "self * -1") is not None or is_(rn, "-1 * self") is not None)
    rep.check(ok, "BASE", "Waveform.__neg__|mul-minus-one", "negation = multiplication by -1", f"Waveform.__neg__ is `{sh(rn, 80)}`, no longer self * -1", E.where(neg))
    td = base.methods["__truediv__"][0]
    Std = S(E, td)
    zero = any(any(is_(x, "np.any(Q_o == 0)") is not None and sym.contains(x, ("name", "other")) for x in conj_) for l in Std.logged("raise") for conj_ in dnf(l.cond))
    inv = Std.ret is not None and any(is_(c_, "self.__mul__(1 / Q_o)") is not None or is_(c_, "self * (1 / Q_o)") is not None for c_ in [Std.ret] + [t for t in sym.subterms(Std.ret) if t[0] in ("call", "mul")])
    rep.check(zero and inv, "BASE", "Waveform.__truediv__|mul-by-inverse-with-zero-rejection", "division = multiplication by 1/other; division by zero rejected", f"Waveform.__truediv__ changed (zero rejection {zero}, multiplication by 1/other {inv})", E.where(td))
    eq = base.methods["__eq__"][0]
    req = S(E, eq).ret_full if hasattr(S(E, eq), "ret_full") else S(E, eq).ret
    # True only on a path where the durations are equal and np.all(np.isclose(samples, other samples)) holds
    from .symutil import branches as _branches

    eq_ok = req is not None
    n_true = 0
    for conds_, leaf_ in _branches(req) if req is not None else []:
        if leaf_ in (("const", False), ("name", "NotImplemented")):
            continue
        n_true += 1
        dur_ok = any(is_(x, "other.duration == self.duration") is not None for c_ in conds_ for x in sym.conj_of(c_))
        close_ok = any(is_(t, "np.all(np.isclose(Q_a, Q_b))") is not None and sym.contains(t, ("name", "other")) and sym.contains(t, ("name", "self")) for t in sym.subterms(leaf_)) or any(is_(x, "np.all(np.isclose(Q_a, Q_b))") is not None for c_ in conds_ for x in sym.conj_of(c_))
        eq_ok = eq_ok and dur_ok and close_ok
    rep.check(eq_ok and n_true >= 1, "BASE", "Waveform.__eq__|duration-and-closeness", "equality = same duration and sample-wise closeness", f"Waveform.__eq__ no longer compares duration and sample-wise closeness on every accepting path: {sh(req, 200)}", E.where(eq))
    ci = base.methods["_check_index"][0]
    lo = hi = False
    for l in S(E, ci).logged("raise"):
        for conj_ in dnf(l.cond):
            lo = lo or any(is_(x, "i < -self.duration") is not None for x in conj_)
            hi = hi or any(is_(x, "i >= self.duration") is not None for x in conj_)
    rep.check(lo and hi, "BASE", "Waveform._check_index|range", "index rejected iff i < -duration or i >= duration", "Waveform._check_index bounds changed", E.where(ci))
    # slice bounds: a negative bound wraps around in numpy, so both returned bounds must be provably >= 0
    # (symbolic-bounds prover over the normal form; conditionals, min/max/clip and comparison facts only)
    cs = base.methods["_check_slice"][0]
    r = S(E, cs).ret
    while r[0] == "obj":
        r = r[2]
    if r[0] != "slice":
        raise AnalysisError(f"anchor: Waveform._check_slice no longer returns a slice expression ({sh(r, 80)})")
    dur = ("attr", ("name", "self"), "duration")
    pv = bounds.Prover(axioms=[(bounds.ZERO, dur)])
    for nm, t in (("start", r[1]), ("stop", r[2])):
        if not bounds.in_fragment(t, _slice_leaves(t)):
            rep.excepted("BASE", f"Waveform._check_slice|{nm}>=0", f"slice {nm} is computed with constructs outside the bounds prover's fragment: not decided", E.where(cs))
            continue
        rep.check(pv.ge(t, bounds.ZERO), "BASE", f"Waveform._check_slice|{nm}>=0", f"the returned {nm} is provably >= 0 on every path",
                  f"Waveform._check_slice can return a negative {nm} (no path-insensitive proof of {nm} >= 0 from the clamps): a negative bound wraps around in the samples array, so waveform[a:b] returns samples outside [a, b)", E.where(cs))
    rep.floor("BASE", 7)

    # --------------------------------------------------------------- GUARD
    wi = base.methods["__init__"][0]
    conj = rejection_conjunctions(E, wi)
    ok = any(l.atom is not None and l.atom.rel == "LtE" and "const:0" in l.atom.rhs.roots and any("duration" in r for r in l.atom.lhs.roots) for _ln, c_ in conj for l in c_)
    rep.check(ok, "GUARD", "Waveform.__init__|positive-duration", "rejects duration <= 0", "Waveform.__init__ no longer rejects non-positive durations (the invariant _duration >= 1 is lost)", E.where(wi))
    pin = E.fn("pulser.pulse.Pulse.__init__")
    conj = rejection_conjunctions(E, pin)
    amp = any(l.atom is not None and l.atom.rel == "Lt" and l.atom.quant == "any" and "const:0" in l.atom.rhs.roots and any(r.startswith("amplitude") for r in l.atom.lhs.roots) for _ln, c_ in conj for l in c_)
    dur = any(l.atom is not None and l.atom.rel == "NotEq" and any(r.endswith(".duration") for r in l.atom.lhs.roots) and any(r.endswith(".duration") for r in l.atom.rhs.roots) for _ln, c_ in conj for l in c_)
    rep.check(amp, "GUARD", "Pulse.__init__|non-negative-amplitude", "rejects any amplitude sample < 0", "Pulse.__init__ no longer rejects negative amplitudes", E.where(pin))
    rep.check(dur, "GUARD", "Pulse.__init__|equal-durations", "rejects waveforms of different durations", "Pulse.__init__ no longer rejects unequal durations", E.where(pin))
    rep.floor("GUARD", 3)

    # ---------------------------------------------------------------- DIV0
    n_div = 0
    # every denominator (the canonical term keeps x / d as x * inv(d)), with locals inlined: (<w>.duration - c) with
    # c >= 1 can be zero for a waveform of c samples unless the path condition bounds the duration away from c;
    # max(<duration expr>, k) with k > 0 is bounded away from zero by construction
    seen_div: set = set()
    scope = [f for c in [base] + subs for fs in c.methods.values() for f in fs]
    scope += [f for f in P.all_functions() if f.module.name in ("pulser.pulse", WF) and not (f.cls is not None and (f.cls is base or f.cls in subs))]
    for f in scope:
        if f.kind == "overload":
            continue
        try:
            Sf = S(E, f, inline=False)
        except RecursionError:
            continue
        for l in Sf.log:
            for top in (l.value, l.target):
                if top is None:
                    continue
                for t in sym.subterms(top):
                    if t[0] != "inv":
                        continue
                    d = unobj(t[1])
                    m_sub = is_(d, "Q_w.duration + Q_k") or is_(d, "Q_w._duration + Q_k")
                    if m_sub is not None and m_sub["Q_k"][0] == "const" and isinstance(m_sub["Q_k"][1], (int, float)):
                        m_sub = dict(m_sub)
                        m_sub["Q_c"] = ("const", -m_sub["Q_k"][1])
                    else:
                        m_sub = None
                    mm = bounds._minmax(d)
                    if m_sub is not None and m_sub["Q_c"][1] >= 1:
                        key = (f.short, sh(d, 60))
                        if key in seen_div:
                            continue
                        seen_div.add(key)
                        n_div += 1
                        w_, c_ = m_sub["Q_w"], m_sub["Q_c"][1]
                        durs = (("attr", w_, "duration"), ("attr", w_, "_duration"))
                        guarded = False
                        for x in sym.conj_of(l.cond):
                            if x[0] == "cmp" and x[1] in ("Lt", "LtE", "NotEq") and any(dd in (x[2], x[3]) for dd in durs):
                                other = x[3] if x[2] in durs else x[2]
                                # c < duration, c+? <= duration, duration != c
                                if other[0] == "const" and ((x[1] == "Lt" and x[3] in durs and other[1] >= c_) or (x[1] == "LtE" and x[3] in durs and other[1] > c_) or (x[1] == "NotEq" and other[1] == c_)):
                                    guarded = True
                        rep.check(guarded, "DIV0", f"{f.short}|{sh(d, 60)}", "denominator guarded against zero", f"`{sh(t, 80)}`: the denominator {sh(d, 60)} is 0 for a waveform of {c_} sample(s), which the class invariant (duration >= 1) allows: the result becomes NaN/inf", E.where(f, l.node))
                    elif mm is not None and mm[0] == "max" and any(sym.contains(a, ("attr", ("name", "self"), "_duration")) or any(x[0] == "attr" and x[2] in ("duration", "_duration") for x in sym.subterms(a)) for a in mm[1]):
                        key = (f.short, sh(d, 60))
                        if key in seen_div:
                            continue
                        seen_div.add(key)
                        n_div += 1
                        consts = [a[1] for a in mm[1] if a[0] == "const" and isinstance(a[1], (int, float))]
                        rep.check(any(k > 0 for k in consts), "DIV0", f"{f.short}|{sh(d, 60)}", "denominator bounded away from zero by max(..., c>0)", f"`{sh(d, 60)}` can be zero", E.where(f, l.node))
    rep.floor("DIV0", 1)
    return {"waveform_classes": n_cls, "denominators_checked": n_div}
